"""Value-structural snapshots, digests and path-wise diffs of object graphs
(DESIGN 4.4).  A Snap is an immutable shadow of an object graph taken at one
moment; later in-place mutation of the live objects cannot rewrite it.

Value-structural = object sharing is ignored (pickling and translators change
sharing, not values); sets are order-free; dicts keep insertion order.
"""
import hashlib

ATOMS = (bool, int, float, str, bytes, type(None))
EXCLUDE_ATTRS = {'_vh'}
# analysis metadata the dependency analysis caches on call nodes (DESIGN C03)
EXCLUDE_BY_CLASS = {'FunctionCall': {'type_parameters'}}
# Context._namespaces is a reverse map keyed by declarations; TypeParameter keys
# hash/compare by value, so entries under such keys merge or split depending on
# insertion history (DESIGN C16 L).  Only identity-keyed entries are values.
FILTER_TYPE_KEYS = {('Context', '_namespaces')}


def _filter_type_keys(d):
    import src.ir.types as tp
    return {k: v for k, v in d.items() if not isinstance(k, tp.Type)}


def _h(s):
    return hashlib.blake2b(s.encode('utf-8', 'surrogatepass'), digest_size=10).hexdigest()


class Snap:
    __slots__ = ('dg', 'cls', 'kids', 'rep', 'is_type')

    def __init__(self, dg, cls, kids, rep, is_type=False):
        self.dg, self.cls, self.kids, self.rep, self.is_type = dg, cls, kids, rep, is_type


def _type_rep(obj):
    try:
        from vf import terms
        return terms.term_str(terms.to_term(obj))
    except Exception:
        return '<%s>' % type(obj).__name__


class Snapper:
    def __init__(self, exclude_by_class=None):
        self.memo = {}
        self.keep = []
        self.exclude_by_class = EXCLUDE_BY_CLASS if exclude_by_class is None else exclude_by_class
        import src.ir.types as tp
        self._Type = tp.Type
        self.count = 0

    def snap(self, obj, _stack=None, _depth=0):
        if isinstance(obj, ATOMS):
            r = repr(obj)
            return Snap(_h('a' + r), 'atom', None, r if len(r) < 60 else r[:57] + '...')
        oid = id(obj)
        got = self.memo.get(oid)
        if got is not None:
            return got
        if _stack is None:
            _stack = set()
        if oid in _stack or _depth > 400:
            return Snap(_h('cycle' + type(obj).__name__), 'cycle', None, '<cycle %s>' % type(obj).__name__)
        _stack.add(oid)
        self.count += 1
        clean = True
        if isinstance(obj, (list, tuple)):
            kids = {}
            for i, x in enumerate(obj):
                kids[i] = self.snap(x, _stack, _depth + 1)
            cls = type(obj).__name__
            rep = '<%s %d>' % (cls, len(kids))
            dg = _h(cls + '[' + ','.join(k.dg for k in kids.values()) + ']')
            s = Snap(dg, cls, kids, rep)
        elif isinstance(obj, (set, frozenset)):
            ks = sorted((self.snap(x, _stack, _depth + 1) for x in obj), key=lambda k: k.dg)
            kids = dict(enumerate(ks))
            dg = _h('set{' + ','.join(k.dg for k in ks) + '}')
            s = Snap(dg, 'set', kids, '<set %d>' % len(ks))
        elif isinstance(obj, dict):
            kids = {}
            parts = []
            for i, (k, v) in enumerate(obj.items()):
                if isinstance(k, str):
                    ks = k
                    kd = 's' + k
                elif isinstance(k, tuple) and all(isinstance(e, str) for e in k):
                    ks = '/'.join(k)
                    kd = 't' + ks
                elif isinstance(k, ATOMS):
                    ks = repr(k)
                    kd = 'a' + ks
                else:
                    ksnap = self.snap(k, _stack, _depth + 1)
                    ks = '#%d' % i
                    kids[ks + '.key'] = ksnap
                    kd = 'o' + ksnap.dg
                vs = self.snap(v, _stack, _depth + 1)
                kids[ks] = vs
                parts.append(kd + ':' + vs.dg)
            dg = _h('dict{' + ','.join(parts) + '}')
            s = Snap(dg, 'dict', kids, '<dict %d>' % len(obj))
        else:
            d = getattr(obj, '__dict__', None)
            cls = type(obj).__name__
            if d is None:
                slots = getattr(type(obj), '__slots__', None)
                if slots:
                    d = {k: getattr(obj, k, None) for k in slots}
                else:
                    r = repr(obj)
                    s = Snap(_h('o' + cls + r), cls, None, r[:60])
                    d = None
            if d is not None:
                excl = self.exclude_by_class.get(cls, ())
                kids = {}
                parts = []
                for k in sorted(d):
                    if k in EXCLUDE_ATTRS or k in excl:
                        continue
                    val = d[k]
                    if (cls, k) in FILTER_TYPE_KEYS and isinstance(val, dict):
                        val = _filter_type_keys(val)
                        self.keep.append(val)
                    ks = self.snap(val, _stack, _depth + 1)
                    kids[k] = ks
                    parts.append(k + '=' + ks.dg)
                is_type = isinstance(obj, self._Type)
                rep = _type_rep(obj) if is_type else '<%s%s>' % (
                    cls, (' ' + str(d.get('name'))) if isinstance(d.get('name'), str) else '')
                s = Snap(_h(cls + '(' + ','.join(parts) + ')'), cls, kids, rep, is_type)
        _stack.discard(oid)
        self.memo[oid] = s
        self.keep.append(obj)
        return s


def snapshot(obj, exclude_by_class=None):
    return Snapper(exclude_by_class).snap(obj)


def digest(obj, exclude_by_class=None):
    return snapshot(obj, exclude_by_class).dg


def diff(a, b, path='', out=None, limit=200, atomic_types=True, _seen=None):
    """List of (path, old_rep, new_rep) for two Snaps; does not descend into a
    replaced type (type-valued attributes are compared atomically)."""
    if out is None:
        out = []
    if _seen is None:
        _seen = set()
    if a.dg == b.dg or len(out) >= limit:
        return out
    key = (id(a), id(b))
    if key in _seen:
        return out
    _seen.add(key)
    if a.cls != b.cls or a.kids is None or b.kids is None:
        out.append((path, a.rep, b.rep))
        return out
    if atomic_types and (a.is_type or b.is_type) and a.rep != b.rep:
        out.append((path, a.rep, b.rep))
        return out
    ka, kb = a.kids, b.kids
    for k in ka:
        if k not in kb:
            out.append(('%s.%s' % (path, k), ka[k].rep, '<absent>'))
        else:
            diff(ka[k], kb[k], '%s.%s' % (path, k), out, limit, atomic_types, _seen)
    for k in kb:
        if k not in ka:
            out.append(('%s.%s' % (path, k), '<absent>', kb[k].rep))
    return out


# --------------------------------------------------------------------------
# fast digest (no snapshot tree): 64-bit structural hash via tuple hashing.
# Same value semantics as Snapper (sharing ignored, sets order-free, dicts in
# insertion order, excluded attributes skipped).

def fast_digest(obj, exclude_by_class=None):
    excl_by = EXCLUDE_BY_CLASS if exclude_by_class is None else exclude_by_class
    memo = {}
    keep = []
    stack = set()

    def d(o, depth):
        if isinstance(o, ATOMS):
            return hash((type(o).__name__, o))
        oid = id(o)
        r = memo.get(oid)
        if r is not None:
            return r
        if oid in stack or depth > 400:
            return hash(('cycle', type(o).__name__))
        stack.add(oid)
        if isinstance(o, (list, tuple)):
            r = hash((type(o).__name__,) + tuple(d(x, depth + 1) for x in o))
        elif isinstance(o, (set, frozenset)):
            r = hash(('set',) + tuple(sorted(d(x, depth + 1) for x in o)))
        elif isinstance(o, dict):
            r = hash(('dict',) + tuple((d(k, depth + 1), d(v, depth + 1)) for k, v in o.items()))
        else:
            dd = getattr(o, '__dict__', None)
            cls = type(o).__name__
            if dd is None:
                slots = getattr(type(o), '__slots__', None)
                dd = {k: getattr(o, k, None) for k in slots} if slots else {'__repr__': repr(o)}
            ex = excl_by.get(cls, ())
            parts = []
            for k in sorted(dd):
                if k in EXCLUDE_ATTRS or k in ex:
                    continue
                val = dd[k]
                if (cls, k) in FILTER_TYPE_KEYS and isinstance(val, dict):
                    val = _filter_type_keys(val)
                    keep.append(val)
                parts.append((k, d(val, depth + 1)))
            r = hash((cls,) + tuple(parts))
        stack.discard(oid)
        memo[oid] = r
        keep.append(o)
        return r
    return d(obj, 0)
