"""C15 -- the driver reports a fault exactly on an oracle mismatch, and counts correctly.

Three workloads, one oracle (vf/drivermodel.py, written from the property text):

  table    in process: the real `hephaestus.check_oracle` / `update_stats` are
           driven with synthetic ProgramRes objects and real files laid out as
           `gen_program` leaves them; `hephaestus.run_command` is rebound to the
           scripted compiler stand-in (vf/fakecc/core.py).  Exhaustive for
           batches of 1..3 programs, random larger batches, sequences of
           batches for the counters.
  session  in process: the real `hephaestus.main()` (-> run / run_parallel ->
           _run -> check_oracle[_mul] -> update_stats -> save_stats -> epilogue)
           with `gen_program` rebound to the same scripted program writer, so
           that thousands of whole sessions (sequential and worker-pool, with
           permuted completion orders) are judged at session end.
  cli      process boundary: `/venv/bin/python $VERIF_REPO/hephaestus.py ...`
           with vf/fakecc first on PATH; real generation, the stand-in decides
           verdicts by seeded hash and logs its decisions (ground truth).

Deviations are attributed to a *mechanism* by structure (`cause` key of the
mech record); consequences of a mechanism (counters, orphans) carry the same
cause only when they are exactly what the mechanism predicts.
"""
import contextlib
import glob
import itertools
import json
import os
import random
import re
import shutil
import signal
import subprocess
import sys
import tempfile
import time
import traceback

from vf import boot, common, drivermodel as dm
from vf.fakecc import core as fk

LANGS = ['java', 'kotlin', 'groovy', 'scala']
FAKECC = os.path.dirname(os.path.abspath(fk.__file__))
TMPBASE = '/tmp'          # the tool's batch dirs must have [A-Za-z0-9/_] paths (as mkdtemp gives)
F6 = 'crash+tool-failed-pid-dropped'
F7 = 'both-oracles-mismatch-same-pid'
TARGET = 'vf.labs.driverlab:'

# per-program states of the decision table
STATES = (['T'] + ['Tp:' + v for v in 'EK'] + ['C:' + v for v in 'EK']
          + ['CI:' + a + b for a in 'EK' for b in 'EK'])


# --------------------------------------------------------------------------
# helpers


def pick_weights(rng):
    """Mix of per-program states of a random batch / sequence / session."""
    base = rng.choice([
        {'T': 1, 'Tp:E': 1, 'Tp:K': 1, 'C:E': 2, 'C:K': 6, 'CI:EE': 2, 'CI:KE': 5, 'CI:KK': 2},
        {'T': 0, 'Tp:E': 0, 'Tp:K': 0, 'C:E': 1, 'C:K': 6, 'CI:EE': 1, 'CI:KE': 8, 'CI:KK': 1},
        {'T': 2, 'Tp:E': 1, 'Tp:K': 1, 'C:E': 1, 'C:K': 2, 'CI:EE': 1, 'CI:KE': 2, 'CI:KK': 1},
        {s: 1 for s in STATES},
    ])
    w = dict(base)
    # the doubly wrong compiler answer ends a sequential session: keep it in a minority of cases
    w['CI:EK'] = w.get('CI:EK', 0) if rng.random() < 0.5 else 0
    if 'CI:EK' in base and rng.random() < 0.5:
        w['CI:EK'] = 0
    return [w.get(s, 0) for s in STATES]


def spec_of(state, pid):
    kind, _, v = state.partition(':')
    return {'pid': pid, 'kind': kind, 'vc': (v[0] if v else None),
            'vi': (v[1] if len(v) > 1 else None)}


def state_of(spec):
    s = spec['kind']
    if spec.get('vc'):
        s += ':' + spec['vc'] + (spec.get('vi') or '')
    return s


def shape_of(lang, specs, crash):
    return [lang, [state_of(s) for s in specs], bool(crash)]


def specs_from_programs(programs, behaviour):
    """Batch description (replayable) from model programs + compiler behaviour."""
    errs = behaviour.get('errors') or {}
    out = []
    for p in programs:
        ok = [f for f, e in p['files'] if e]
        bad = [f for f, e in p['files'] if not e]
        if p['tool_failed']:
            kind = 'Tp' if ok else 'T'
        else:
            kind = 'CI' if bad else 'C'
        out.append({'pid': p['pid'], 'kind': kind,
                    'vc': ('E' if ok[0] in errs else 'K') if ok else None,
                    'vi': ('E' if bad[0] in errs else 'K') if (bad and kind == 'CI') else None})
    return out


def behaviour_of(rec):
    return {'errors': {f['path']: f['tokens'] for f in rec.get('files', []) if f['verdict'] == 'E'},
            'crash': ('crash' + rec['crash']) if rec.get('crash') else None}


def both_pids(programs, behaviour, model):
    """Structure of the double-save mechanism: no crash, and for one pid the
    well-typed program is rejected and the ill-typed one accepted."""
    if behaviour.get('crash') is not None:
        return []
    return [p['pid'] for p in programs
            if p['pid'] in model and {'rejected', 'accepted'} <= set(model[p['pid']]['reasons'])]


def classify_faultset(programs, behaviour, model, real):
    """None if equal, else a mech dict naming the structure of the deviation."""
    real = set(real)
    want = set(model)
    if real == want:
        return None
    missing, extra = want - real, real - want
    toolf = {p['pid'] for p in programs if p['tool_failed']}
    crash = behaviour.get('crash') is not None
    if crash and not extra and toolf and missing == toolf:
        return {'rule': 'fault-set', 'cause': F6}
    kinds = sorted({'+'.join(model[p]['reasons']) for p in missing})
    return {'rule': 'fault-set', 'cause': 'unexplained', 'missing': ','.join(kinds) or None,
            'extra': len(extra) > 0, 'crash': crash}


def ls_tree(root):
    out = []
    for r, dirs, files in os.walk(root):
        dirs.sort()
        rel = os.path.relpath(r, root)
        for n in sorted(files):
            out.append(os.path.normpath(os.path.join(rel, n)))
        if not dirs and not files and rel != '.':
            out.append(os.path.normpath(rel) + '/')
    return out


def read_json(path):
    try:
        with open(path) as f:
            return json.load(f)
    except (OSError, ValueError):
        return None


def file_sha(path):
    try:
        with open(path, 'rb') as f:
            return fk.sha(f.read())
    except OSError:
        return None


def saved_defects(session_dir, pid, staged):
    """What is missing from <session>/<pid>/ given what was staged for pid."""
    d = os.path.join(session_dir, str(pid))
    if not os.path.isdir(d):
        return ['no-directory']
    lacks = []
    for name, s in staged.items():
        if file_sha(os.path.join(d, name)) != s:
            lacks.append('program-missing-or-different')
            break
    return lacks


class Viol:
    """Collects the verdict of one judged item."""

    def __init__(self):
        self.items = []

    def add(self, mech, msg, extra=None):
        self.items.append((mech, msg, extra or {}))


def emit(out, v, witness, shape, nontrivial):
    if not v.items:
        out.ok(shape, nontrivial)
        return
    first = True
    for mech, msg, extra in v.items:
        w = dict(witness)
        w.update(extra)
        if first:
            out.violation(mech, msg, w, shape if nontrivial else None)
            first = False
        elif len(out.violations) < 200:
            out.violations.append({'mech': mech, 'msg': msg, 'witness': w})


class Watchdog(BaseException):
    pass


@contextlib.contextmanager
def fd_capture(path):
    """Redirect fd 1/2 (also of forked children) into a file."""
    sys.stdout.flush()
    sys.stderr.flush()
    o1, o2 = os.dup(1), os.dup(2)
    fd = os.open(path, os.O_WRONLY | os.O_CREAT | os.O_TRUNC, 0o644)
    os.dup2(fd, 1)
    os.dup2(fd, 2)
    os.close(fd)
    try:
        yield
    finally:
        sys.stdout.flush()
        sys.stderr.flush()
        os.dup2(o1, 1)
        os.dup2(o2, 2)
        os.close(o1)
        os.close(o2)


def exc_info(e):
    tb = traceback.extract_tb(e.__traceback__)
    repo_fn = None
    for fr in tb:
        if os.path.basename(fr.filename) == 'hephaestus.py':
            repo_fn = fr.name
    return {'exc': type(e).__name__, 'where': repo_fn, 'via': [fr.name for fr in tb][-3:],
            'filename': getattr(e, 'filename', None), 'text': str(e)[:300]}


# --------------------------------------------------------------------------
# the in-process rig around the real module


class Rig:
    def __init__(self, lang, scratch, runid='x'):
        os.makedirs(scratch, exist_ok=True)
        self.lang = lang
        self.scratch = scratch
        self.bugs = os.path.join(scratch, 'bugs')
        os.makedirs(self.bugs, exist_ok=True)
        self.h = boot.boot(language=lang, bugs=self.bugs, name='boot', shim=False,
                           extra_argv=['-F', os.path.join(scratch, 'logs')])
        h = self.h
        self.tmp_root = tempfile.mkdtemp(prefix='vfc15_%s_' % runid, dir=TMPBASE)
        assert re.fullmatch(r'[A-Za-z0-9/_]+', self.tmp_root), self.tmp_root
        tempfile.tempdir = self.tmp_root
        self.log = os.path.join(scratch, 'fakecc.log')
        self.genlog = os.path.join(scratch, 'gen.log')
        self.cfg = {'seed': 0}
        self.script = {}
        self.serial = 0
        tr = h.TRANSLATORS[lang]
        self.fname, self.iname = tr.get_filename(), tr.get_incorrect_filename()
        self.real = {'run_command': h.run_command, 'gen_program': h.gen_program}
        h.run_command = self.run_command           # harness-side rebinding, no repo edit
        h.cli_args.debug = False
        h.cli_args.rerun = False
        h.cli_args.dry_run = False
        h.cli_args.seconds = None
        h.cli_args.stop_cond = 'iterations'
        self.format_ok = self.selftest_format()

    def close(self):
        shutil.rmtree(self.tmp_root, ignore_errors=True)

    # -- compiler stand-in -------------------------------------------------
    def run_command(self, arguments, get_stdout=True):
        argv = list(arguments)
        rc, text, rec = fk.compile_(self.lang, argv[1:], self.cfg)
        rec['binary'] = argv[0]
        try:
            fk.log(self.log, rec)
        except OSError:
            pass
        return rc == 0, text

    def read_log(self, reset=True):
        recs = []
        try:
            with open(self.log) as f:
                for ln in f:
                    try:
                        recs.append(json.loads(ln))
                    except ValueError:
                        pass
        except OSError:
            pass
        if reset:
            with contextlib.suppress(OSError):
                os.remove(self.log)
        return recs

    def selftest_format(self):
        """Premise of the whole lab: the output format of the stand-in is the
        one the tool's compiler class understands (that is C14's subject, not
        C15's).  Checked with the real class on a known output."""
        d = os.path.join(self.tmp_root, 'fmt', 'src')
        paths = []
        for i, v in enumerate('EKEK'):
            p = os.path.join(d, 'pkg%s' % 'abcd'[i], self.fname)
            os.makedirs(os.path.dirname(p), exist_ok=True)
            with open(p, 'w') as f:
                f.write('// vf:{"v":"%s"}\n' % v)
            paths.append(p)
        ok = True
        try:
            for force in (False, True):
                comp = self.h.COMPILERS[self.lang](d, set())
                cfg = dict(self.cfg, force_crash=force)
                rc, text, rec = fk.compile_(self.lang, comp.get_compiler_cmd()[1:], cfg)
                failed, _ = comp.analyze_compiler_output(text)
                if force:
                    ok = ok and bool(comp.crash_msg) and rec['crash'] in (comp.crash_msg or '')
                else:
                    want = {paths[0], paths[2]}
                    ok = ok and not comp.crash_msg and set(failed.keys()) == want and all(
                        all(t in '\n'.join(failed[f['path']]) for t in f['tokens'])
                        for f in rec['files'] if f['verdict'] == 'E')
        except Exception:
            ok = False
        shutil.rmtree(os.path.join(self.tmp_root, 'fmt'), ignore_errors=True)
        return ok

    # -- program writer (what gen_program leaves on disk) --------------------
    def write_program(self, spec, dirname, packages, crash=False):
        h = self.h
        pid = spec['pid']
        kind = spec['kind']
        tdir = h.cli_args.test_directory
        info = {'pid': pid, 'tool_failed': kind in ('T', 'Tp'), 'files': [], 'staged': {},
                'tool_msg': None, 'injected': None}
        if info['tool_failed']:
            info['tool_msg'] = 'toolerr%dx%d' % (pid, self.serial)

        def put(pkg, name, role, verdict, with_crash):
            marker = {'v': verdict, 'pid': pid, 'role': role}
            if with_crash:
                marker['crash'] = 1
            text = 'package src.%s;\n// vf:%s\n// %s program %d (%d)\nclass Main {}\n' % (
                pkg, json.dumps(marker, sort_keys=True), role, pid, self.serial)
            src = os.path.join(dirname, pkg, self.fname)
            stg = os.path.join(tdir, 'tmp', str(pid), name)
            for p in (src, stg):
                os.makedirs(os.path.dirname(p), exist_ok=True)
                with open(p, 'w') as f:
                    f.write(text)
                with open(p + '.bin', 'wb') as f:
                    f.write(b'\x80\x04N.')
            info['staged'][name] = fk.sha(text)
            info['staged'][name + '.bin'] = fk.sha(b'\x80\x04N.')
            return src

        if kind != 'T':
            f1 = put(packages[0], self.fname, 'correct', spec['vc'], crash)
            info['files'].append((f1, True))
        if kind in ('T', 'Tp'):
            stats = {'transformations': [], 'error': info['tool_msg'], 'program': None, 'time': 0}
            return h.ProgramRes(True, stats), info
        stats = {'transformations': ['TypeErasure'], 'error': None,
                 'programs': {f1: True}, 'time': 0.01}
        if kind == 'CI':
            f2 = put(packages[1], self.iname, 'incorrect', spec['vi'], False)
            info['files'].append((f2, False))
            info['injected'] = 'injected%dx%d: Expected type A but found B' % (pid, self.serial)
            stats['error'] = info['injected']
            stats['programs'][f2] = False
        return h.ProgramRes(False, stats), info

    def new_session_dir(self, tag):
        self.serial += 1
        name = '%s%d' % (tag, self.serial)
        h = self.h
        h.cli_args.name = name
        h.cli_args.bugs = self.bugs
        h.cli_args.test_directory = os.path.join(self.bugs, name)
        h.STATS['totals'] = {'passed': 0, 'failed': 0}
        h.STATS['faults'] = {}
        h.STATS['time'] = 0
        h.STATS['compilation_time'] = 0
        h.STOP_COND = False
        return h.cli_args.test_directory

    # -- one direct call of check_oracle -------------------------------------
    def direct_batch(self, specs, crash, tdir):
        """Lay the batch out, call the real check_oracle, observe."""
        h = self.h
        self.serial += 1
        tmpdir = tempfile.mkdtemp()
        dirname = os.path.join(tmpdir, 'src')
        oracles = h.OrderedDict()
        infos = []
        crash_left = crash
        for i, sp in enumerate(specs):
            pk = ('pa%dx%d' % (i, self.serial), 'pb%dx%d' % (i, self.serial))
            c = crash_left and sp['kind'] != 'T'
            if c:
                crash_left = False
            res, info = self.write_program(sp, dirname, pk, crash=c)
            oracles[sp['pid']] = res
            infos.append(info)
        self.cfg['force_crash'] = bool(crash_left)      # batch without any file
        obs = {'ret': None, 'ctime': 0, 'exc': None}
        buf = os.path.join(self.scratch, 'stdout.txt')
        try:
            with fd_capture(buf):
                ret = h.check_oracle(tmpdir, oracles)
            obs['ret'], obs['ctime'] = ret
        except (Exception, SystemExit) as e:
            obs['exc'] = exc_info(e)
        finally:
            self.cfg['force_crash'] = False
        recs = [r for r in self.read_log() if r.get('kind') == 'compile']
        obs['rec'] = recs[-1] if recs else None
        obs['ncompile'] = len(recs)
        obs['tmpdir'] = tmpdir
        obs['tmpdir_left'] = os.path.exists(tmpdir)
        obs['tmp_pids_left'] = sorted(
            int(x) for x in (os.listdir(os.path.join(tdir, 'tmp'))
                             if os.path.isdir(os.path.join(tdir, 'tmp')) else []) if x.isdigit())
        return infos, obs


# --------------------------------------------------------------------------
# judging one directly driven batch


def judge_direct(rig, lang, specs, crash, infos, obs, tdir):
    """-> (Viol, model, behaviour, attributed_faults or None)."""
    v = Viol()
    rec = obs['rec']
    if rec is None:
        v.add({'rule': 'compiler-not-invoked'}, 'check_oracle did not run the compiler')
        return v, {}, {'errors': {}, 'crash': None}, None
    beh = behaviour_of(rec)
    model = dm.judge_batch(infos, beh)
    by_pid = {i['pid']: i for i in infos}
    both = both_pids(infos, beh, model)
    attributed = None
    if obs['exc'] is not None:
        e = obs['exc']
        mech = {'rule': 'exception', 'exc': e['exc'], 'where': e['where'], 'cause': 'unexplained'}
        upto = None
        if (e['exc'] == 'FileExistsError' and 'copytree' in e['via'] and both
                and e['filename'] == os.path.join(tdir, str(both[0]))):
            mech['cause'] = F7
            upto = both[0]
        v.add(mech, '%s escaped check_oracle: %s' % (e['exc'], e['text']))
        if upto is not None:
            # what the mechanism predicts for the part of the batch already handled
            for p in infos:
                if p['pid'] > upto:
                    break
                if p['pid'] in model and model[p['pid']]['save']:
                    lacks = saved_defects(tdir, p['pid'], p['staged'])
                    if lacks:
                        v.add({'rule': 'saved', 'cause': 'unexplained', 'lacks': lacks[0],
                               'after': 'exception'},
                              'pid %s: test case not saved before the exception' % p['pid'])
        return v, model, beh, None
    real = obs['ret']
    mech = classify_faultset(infos, beh, model, real.keys())
    if mech:
        v.add(mech, 'reported %s, model %s' % (sorted(real), sorted(model)))
        if mech['cause'] != 'unexplained':
            attributed = set(real.keys())
    for pid in sorted(set(real) & set(model)):
        stats = real[pid]
        lacks = dm.message_defects(stats.get('error') if isinstance(stats, dict) else None,
                                   by_pid[pid], model[pid], beh)
        for l in lacks:
            v.add({'rule': 'message', 'cause': 'unexplained', 'lacks': l,
                   'reasons': '+'.join(model[pid]['reasons'])},
                  'pid %s: message %r lacks %s' % (pid, str(stats.get('error'))[:120], l))
        if model[pid]['save']:
            for l in saved_defects(tdir, pid, by_pid[pid]['staged']):
                v.add({'rule': 'saved', 'cause': 'unexplained', 'lacks': l,
                       'reasons': '+'.join(model[pid]['reasons'])},
                      'pid %s: test case not under <session>/%s/ (%s)' % (pid, pid, l))
    for p in infos:
        if p['pid'] not in model and os.path.exists(os.path.join(tdir, str(p['pid']))):
            v.add({'rule': 'leftover', 'cause': 'unexplained', 'what': 'saved-dir-of-non-faulty-pid'},
                  'pid %s is not a fault but <session>/%s exists' % (p['pid'], p['pid']))
    return v, model, beh, attributed


def witness_direct(lang, specs, crash, obs, model, beh):
    return {'part': 'table', 'lang': lang, 'batch': specs, 'crash': bool(crash),
            'compiler': {'errors_for': sorted(os.path.basename(os.path.dirname(k)) for k in beh['errors']),
                         'crash': beh['crash']},
            'real': {'reported': sorted(obs['ret']) if obs['ret'] is not None else None,
                     'errors': ({str(k): str(s.get('error'))[:200] for k, s in obs['ret'].items()}
                                if obs['ret'] is not None else None),
                     'exception': obs['exc']},
            'model': {str(k): m for k, m in model.items()}}


def counters_check(v, h, tdir, pure, attr, reported, attr_cause):
    """Totals / files after a history of batches."""
    tot = dict(h.STATS['totals'])
    sj = read_json(os.path.join(tdir, 'stats.json'))
    fj = read_json(os.path.join(tdir, 'faults.json'))
    if tot != pure.as_dict():
        if attr_cause and tot == attr.as_dict():
            v.add({'rule': 'counters', 'cause': attr_cause},
                  'totals %s, model %s (exactly the %s deviation)' % (tot, pure.as_dict(), attr_cause))
        else:
            why = ('passed+failed != processed' if tot['passed'] + tot['failed'] != pure.processed
                   else 'failed != |faults|')
            v.add({'rule': 'counters', 'cause': 'unexplained', 'what': why},
                  'totals %s, model %s after %d programs' % (tot, pure.as_dict(), pure.processed))
    if sj is None or sj.get('totals') != tot:
        v.add({'rule': 'stats-file', 'cause': 'unexplained'},
              'stats.json totals %s != STATS %s' % (sj and sj.get('totals'), tot))
    keys = None if fj is None else {int(k) for k in fj if str(k).lstrip('-').isdigit()}
    if keys != set(reported):
        v.add({'rule': 'faults-file', 'cause': 'unexplained',
               'what': 'missing' if keys is not None and keys < set(reported) else 'different'},
              'faults.json keys %s != reported %s' % (sorted(keys or []), sorted(reported)))


# --------------------------------------------------------------------------
# cell: decision table and directly driven sequences


def cell_table(cell):
    out = common.CellOut()
    lang = cell['lang']
    rig = Rig(lang, cell['_scratch'], cell.get('runid', 'x'))
    try:
        if not rig.format_ok:
            out.skip('stand-in-format-not-understood-by-compiler-class')
            return out.result()
        h = rig.h
        if cell['mode'] == 'exhaustive':
            todo = []
            for n in cell['sizes']:
                for combo in itertools.product(STATES, repeat=n):
                    for crash in (False, True):
                        todo.append((combo, crash))
            todo = todo[cell['part']::cell['parts']]
            for combo, crash in todo:
                _one_direct(out, rig, lang, [spec_of(s, 1 + i) for i, s in enumerate(combo)], crash)
                out.ev('table_batches')
        elif cell['mode'] == 'random':
            rng = random.Random(cell['seed'])
            for _ in range(cell['count']):
                n = rng.randint(4, 12)
                start = rng.randint(1, 500)
                w = pick_weights(rng)
                specs = [spec_of(rng.choices(STATES, w)[0], start + i) for i in range(n)]
                _one_direct(out, rig, lang, specs, rng.random() < 0.25)
                out.ev('random_batches')
        elif cell['mode'] == 'sequence':
            rng = random.Random(cell['seed'])
            for _ in range(cell['count']):
                _one_sequence(out, rig, lang, rng)
    finally:
        rig.close()
    return out.result()


def _one_direct(out, rig, lang, specs, crash):
    tdir = rig.new_session_dir('t')
    infos, obs = rig.direct_batch(specs, crash, tdir)
    v, model, beh, _ = judge_direct(rig, lang, specs, crash, infos, obs, tdir)
    out.ev('check_oracle_calls')
    if obs['tmpdir_left']:
        out.ev('note_batch_tempdir_left_after_call')
    if any(p not in model for p in obs['tmp_pids_left']):
        out.ev('note_staging_of_non_faulty_left_after_call')
    w = witness_direct(lang, specs, crash, obs, model, beh)
    if model:
        out.sample({'language': lang, 'batch': [state_of(s) for s in specs], 'crash': bool(crash),
                    'model_faults': {str(k): m['reasons'] for k, m in model.items()},
                    'real_reported': w['real']['reported'], 'real_exception':
                    (obs['exc'] or {}).get('exc')}, cap=2)
    emit(out, v, w, shape_of(lang, specs, crash), bool(model))
    shutil.rmtree(tdir, ignore_errors=True)
    shutil.rmtree(obs['tmpdir'], ignore_errors=True)


def _one_sequence(out, rig, lang, rng):
    """1..6 batches into one session directory, update_stats after each."""
    h = rig.h
    tdir = rig.new_session_dir('q')
    k = rng.randint(1, 6)
    pid = 1
    pure, attr = dm.Counters(), dm.Counters()
    reported = set()
    attr_cause = None
    w = pick_weights(rng)
    hist = []
    for b in range(k):
        n = rng.randint(1, 7)
        specs = [spec_of(rng.choices(STATES, w)[0], pid + i) for i in range(n)]
        pid += n
        crash = rng.random() < 0.2
        infos, obs = rig.direct_batch(specs, crash, tdir)
        v, model, beh, attributed = judge_direct(rig, lang, specs, crash, infos, obs, tdir)
        out.ev('check_oracle_calls')
        wit = witness_direct(lang, specs, crash, obs, model, beh)
        hist.append({'batch': specs, 'crash': crash})
        wit['history'] = list(hist)
        wit['part'] = 'sequence'
        if obs['exc'] is None:
            with fd_capture(os.path.join(rig.scratch, 'stdout.txt')):
                try:
                    h.update_stats((obs['ret'], obs['ctime']), n, 0.01 * n)
                except Exception as e:
                    v.add({'rule': 'exception', 'exc': type(e).__name__, 'where': 'update_stats',
                           'cause': 'unexplained'}, 'update_stats raised %r' % (e,))
            out.ev('update_stats_calls')
            pure.add(n, model.keys())
            attr.add(n, attributed if attributed is not None else model.keys())
            if attributed is not None:
                attr_cause = F6
            reported |= set(obs['ret'].keys())
            counters_check(v, h, tdir, pure, attr, reported, attr_cause)
        emit(out, v, wit, shape_of(lang, specs, crash) + ['seq', b], bool(model))
        shutil.rmtree(obs['tmpdir'], ignore_errors=True)
        if obs['exc'] is not None:
            break           # a sequential session ends here
    out.ev('sequences')
    shutil.rmtree(tdir, ignore_errors=True)


# --------------------------------------------------------------------------
# judging a whole session (in-process or CLI) at its end


def batch_ranges(n, b):
    out, done = [], 0
    while done < n:
        k = min(b, n - done)
        out.append(list(range(done + 1, done + k + 1)))
        done += k
    return out


def judge_session(out, S):
    """S: see cell_session / cell_cli.  Pushes one verdict per compiled batch and
    one for the end-of-session audit."""
    lang = S['lang']
    tdir = S['session_dir']
    faults = S['faults'] if isinstance(S['faults'], dict) else {}
    fkeys = {int(k) for k in faults if str(k).isdigit()}
    pure, attr = dm.Counters(), dm.Counters()
    causes = set()
    allowed_saved = set()
    orphan_ok = set()          # saved dirs a known mechanism leaves behind unreported
    tmpdir_ok = 0              # batch temp dirs a known mechanism leaves behind
    internal_ok = 0
    abort = S.get('abort')
    aborted_at = None
    base_w = {'part': S['part'], 'lang': lang, 'options': S['options']}
    if S.get('script') is not None:
        base_w['script'] = S['script']
    compiled = [i for i, x in enumerate(S['batches']) if x['behaviour'] is not None]
    last_idx = compiled[-1] if compiled else -1
    unattributed = 0
    undecided = False
    history = []
    for bi, B in enumerate(S['batches']):
        progs, beh = B['programs'], B['behaviour']
        specs = specs_from_programs(progs, beh or {'errors': {}})
        if beh is None:
            # never handed to the compiler: only legitimate after an abort
            if abort is None:
                out.skip('batch-without-compiler-record')
                unattributed += 1
            continue
        history.append({'batch': specs, 'crash': beh['crash'] is not None})
        model = dm.judge_batch(progs, beh)
        by_pid = {p['pid']: p for p in progs}
        crash = beh['crash'] is not None
        v = Viol()
        w = dict(base_w, batch_index=bi, batch=specs, crash=crash,
                 model={str(k): m for k, m in model.items()})
        both = both_pids(progs, beh, model)
        real = {p for p in fkeys if p in by_pid}
        w['real'] = {'reported': sorted(real)}
        last = (bi == last_idx)
        if abort is not None and last:
            # the session died while this batch was being checked
            aborted_at = bi
            mech = {'rule': 'exception', 'exc': abort['exc'], 'where': abort.get('where'),
                    'cause': 'unexplained', 'mode': S['mode']}
            if (abort['exc'] == 'FileExistsError' and both
                    and str(abort.get('filename') or abort.get('text')).rstrip("'").endswith(
                        os.sep + str(both[0]))):
                mech['cause'] = F7
                causes.add(F7)
                tmpdir_ok += 1
                for p in progs:
                    if p['pid'] <= both[0] and p['pid'] in model and model[p['pid']]['save']:
                        orphan_ok.add(p['pid'])
            v.add(mech, 'session died with %s: %s' % (abort['exc'], abort.get('text')))
            w['real']['exception'] = abort
            emit(out, v, w, shape_of(lang, specs, crash) + [S['mode']], bool(model))
            break
        swallowed = both and S['mode'] == 'par' and S['internal_errors'] > internal_ok
        if swallowed and not real:
            # worker mode: the exception is swallowed and the batch reported as fault-free
            internal_ok += 1
            tmpdir_ok += 1
            causes.add(F7)
            v.add({'rule': 'exception', 'exc': 'FileExistsError', 'where': 'check_oracle',
                   'cause': F7, 'mode': 'par'},
                  'worker swallowed an internal error; the batch lost its %d faults' % len(model))
            for p in progs:
                if p['pid'] <= both[0] and p['pid'] in model and model[p['pid']]['save']:
                    orphan_ok.add(p['pid'])
            pure.add(len(progs), model.keys())
            attr.add(len(progs), ())
            emit(out, v, w, shape_of(lang, specs, crash) + [S['mode']], bool(model))
            continue
        mech = classify_faultset(progs, beh, model, real)
        used = set(model)
        if (mech and S['part'] == 'cli' and crash and mech['cause'] == 'unexplained'
                and not (real - set(model))
                and all(len(by_pid[p]['files']) == 1 and by_pid[p]['files'][0][1]
                        for p in set(model) - real)):
            # From outside, a program the tool failed on after staging its well-typed
            # variant looks like a program without an ill-typed variant: whether this is
            # the known crash-branch drop or something else cannot be decided here (the
            # in-process workloads, which script tool failures, decide it).
            out.skip('cli-crash-batch-drops-single-file-pid-ambiguous')
            undecided = True
            continue
        if mech:
            v.add(mech, 'faults.json has %s of this batch, model %s' % (sorted(real), sorted(model)))
            if mech['cause'] != 'unexplained':
                causes.add(mech['cause'])
                used = real
        pure.add(len(progs), model.keys())
        attr.add(len(progs), used)
        for pid in sorted(real & set(model)):
            stats = faults.get(str(pid))
            prog = by_pid[pid]
            if not (prog['tool_failed'] and prog.get('tool_msg') is None):
                for l in dm.message_defects(stats.get('error') if isinstance(stats, dict) else None,
                                            prog, model[pid], beh):
                    v.add({'rule': 'message', 'cause': 'unexplained', 'lacks': l,
                           'reasons': '+'.join(model[pid]['reasons'])},
                          'pid %s: message %r lacks %s' % (pid, str((stats or {}).get('error'))[:120], l))
            if model[pid]['save']:
                allowed_saved.add(pid)
                for l in saved_defects(tdir, pid, prog['staged']):
                    v.add({'rule': 'saved', 'cause': 'unexplained', 'lacks': l,
                           'reasons': '+'.join(model[pid]['reasons'])},
                          'pid %s: test case not under <session>/%s/ (%s)' % (pid, pid, l))
        if model and len(out.samples) < 2:
            out.sample({'language': lang, 'mode': S['mode'], 'batch': [state_of(s) for s in specs],
                        'crash': crash, 'model_faults': {str(k): m['reasons'] for k, m in model.items()},
                        'real_reported': sorted(real)}, cap=2)
        emit(out, v, w, shape_of(lang, specs, crash) + [S['mode']], bool(model))
        out.ev('session_batches')

    # ---- end of session audit ------------------------------------------------
    if unattributed or undecided:
        out.skip('session-audit-with-unattributed-batch')
        return
    v = Viol()
    w = dict(base_w, audit=True, history=history)
    stats = S['stats'] if isinstance(S['stats'], dict) else {}
    tot = stats.get('totals')
    w['real'] = {'totals': tot, 'faults_keys': sorted(fkeys), 'top': sorted(S['top']),
                 'tmp_left': S['tmp_left'], 'total_line': S['total_line'],
                 'internal_errors': S['internal_errors'], 'abort': abort}
    w['model'] = {'totals': pure.as_dict(), 'faults': sorted(pure.reported),
                  'with_known': attr.as_dict(), 'causes': sorted(causes)}
    known_cause = sorted(causes)[0] if causes else None
    if pure.processed == 0 and abort is None:
        out.skip('session-without-judged-batches')
        return
    if S['internal_errors'] > internal_ok:
        v.add({'rule': 'exception', 'exc': 'swallowed', 'where': 'check_oracle_mul',
               'cause': 'unexplained', 'mode': S['mode']},
              '%d internal error(s) printed by the workers, %d explained'
              % (S['internal_errors'], internal_ok))
    if tot is None and abort is not None and pure.processed == 0:
        pass        # died in its first batch: no statistics were ever due
    elif tot != pure.as_dict():
        if known_cause and tot == attr.as_dict():
            v.add({'rule': 'counters', 'cause': known_cause},
                  'totals %s, model %s (exactly what %s predicts)' % (tot, pure.as_dict(), known_cause))
        else:
            why = 'failed != |faults|'
            if not tot or tot.get('passed', 0) + tot.get('failed', 0) != pure.processed:
                why = 'passed+failed != processed'
            v.add({'rule': 'counters', 'cause': 'unexplained', 'what': why, 'mode': S['mode']},
                  'stats.json totals %s, model %s after %d programs' % (tot, pure.as_dict(), pure.processed))
    if S.get('processed') is not None and abort is None and tot and \
            tot.get('passed', 0) + tot.get('failed', 0) != S['processed']:
        v.add({'rule': 'counters', 'cause': 'unexplained', 'what': 'conservation', 'mode': S['mode']},
              'passed+failed = %s but %d programs were processed'
              % (tot.get('passed', 0) + tot.get('failed', 0), S['processed']))
    if tot is None and abort is not None and pure.processed == 0:
        pass
    elif S.get('mem_totals') is not None and S['mem_totals'] != tot:
        v.add({'rule': 'stats-file', 'cause': 'unexplained'},
              'stats.json totals %s != STATS %s' % (tot, S['mem_totals']))
    if fkeys != attr.reported:
        extra_, missing_ = fkeys - pure.reported, attr.reported - fkeys
        v.add({'rule': 'faults-file', 'cause': 'unexplained',
               'what': 'missing' if missing_ and not extra_ else 'different', 'mode': S['mode']},
              'faults.json keys %s, expected %s' % (sorted(fkeys), sorted(attr.reported)))
    if abort is None and S['total_line'] != pure.failed:
        if known_cause and S['total_line'] == attr.failed:
            v.add({'rule': 'total-line', 'cause': known_cause},
                  'final line says %s, model %s (exactly what %s predicts)'
                  % (S['total_line'], pure.failed, known_cause))
        else:
            v.add({'rule': 'total-line', 'cause': 'unexplained'},
                  'final line says %s, model %s' % (S['total_line'], pure.failed))
    allowed = dm.allowed_entries(allowed_saved | orphan_ok, S['keep_all'])
    if abort is not None and F7 in causes:
        allowed |= {'tmp'}
    for name in sorted(S['top'] - allowed):
        what = ('staging-dir' if name == 'tmp' else
                'saved-dir-of-unreported-fault' if name.isdigit() and int(name) in pure.reported else
                'saved-dir-of-non-faulty-pid' if name.isdigit() else 'other')
        v.add({'rule': 'leftover', 'cause': 'unexplained', 'what': what, 'keep_all': S['keep_all']},
              '<session>/%s exists at the end of the session' % name)
    orphans = sorted(p for p in orphan_ok if str(p) in S['top'] and p not in fkeys)
    if orphans:
        v.add({'rule': 'leftover', 'cause': F7, 'what': 'saved-but-unreported'},
              'saved but unreported test cases %s (batch lost after the exception)' % orphans)
    if len(S['tmp_left']) > tmpdir_ok:
        v.add({'rule': 'leftover', 'cause': 'unexplained', 'what': 'batch-temp-dir',
               'keep_all': S['keep_all']},
              '%d batch temp dir(s) left (%d explained)' % (len(S['tmp_left']), tmpdir_ok))
    elif S['tmp_left']:
        v.add({'rule': 'leftover', 'cause': F7, 'what': 'batch-temp-dir'},
              '%d batch temp dir(s) left by the batches that raised' % len(S['tmp_left']))
    out.ev('sessions_judged')
    emit(out, v, w, None, False)


# --------------------------------------------------------------------------
# cell: whole sessions in process (real main/run/run_parallel, scripted gen_program)


def make_script(rng, lang):
    n = rng.randint(1, 30)
    b = rng.randint(1, 8)
    workers = rng.choice([None, None, None, None, 1, 2, 2, 3, 3, 4]) if rng.random() < 0.95 else 8
    w = pick_weights(rng)
    progs = {}
    for r in batch_ranges(n, b):
        crash = rng.random() < 0.15
        for pid in r:
            sp = spec_of(rng.choices(STATES, w)[0], pid)
            if crash and sp['kind'] != 'T':
                sp['crash'] = True
                crash = False
            progs[str(pid)] = sp
    return {'lang': lang, 'iterations': n, 'batch': b, 'workers': workers,
            'keep_all': rng.random() < 0.3, 'max_sleep_ms': rng.choice([0, 5, 25, 60]),
            'seed': rng.randrange(1 << 30), 'progs': progs}


def run_script(rig, script, timeout=300):
    """Run one scripted session through the real hephaestus.main()."""
    h = rig.h
    tdir = rig.new_session_dir('s')
    shutil.rmtree(tdir, ignore_errors=True)
    a = h.cli_args
    a.iterations, a.batch, a.workers = script['iterations'], script['batch'], script['workers']
    a.keep_all = script['keep_all']
    rig.cfg = {'seed': script['seed'], 'max_sleep_ms': script['max_sleep_ms']}
    rig.script = script
    infos_path = rig.genlog
    with contextlib.suppress(OSError):
        os.remove(infos_path)

    def fake_gen_program(pid, dirname, packages):
        sp = script['progs'][str(pid)]
        res, info = rig.write_program(sp, dirname, packages, crash=bool(sp.get('crash')))
        fk.log(infos_path, info)
        return res

    h.gen_program = fake_gen_program
    for d in os.listdir(rig.tmp_root):
        shutil.rmtree(os.path.join(rig.tmp_root, d), ignore_errors=True)
    outp = os.path.join(rig.scratch, 'session.out')
    abort = None

    def on_alarm(signum, frame):
        raise Watchdog()
    old = signal.signal(signal.SIGALRM, on_alarm)
    signal.alarm(timeout)
    hung = False
    try:
        with fd_capture(outp):
            try:
                h.main()
            except Watchdog:
                hung = True
            except (Exception, SystemExit) as e:
                abort = exc_info(e)
                traceback.print_exc()
    finally:
        signal.alarm(0)
        signal.signal(signal.SIGALRM, old)
        h.gen_program = rig.real['gen_program']
    with open(outp, errors='replace') as f:
        text = f.read()
    recs = [r for r in rig.read_log() if r.get('kind') == 'compile']
    infos = {}
    try:
        with open(infos_path) as f:
            for ln in f:
                i = json.loads(ln)
                i['files'] = [tuple(x) for x in i['files']]
                infos[i['pid']] = i
    except OSError:
        pass
    return tdir, text, recs, infos, abort, hung


def observe_session_dir(tdir, tmp_root):
    top = set(os.listdir(tdir)) if os.path.isdir(tdir) else set()
    return {'top': top, 'faults': read_json(os.path.join(tdir, 'faults.json')),
            'stats': read_json(os.path.join(tdir, 'stats.json')),
            'tmp_left': sorted(os.listdir(tmp_root)) if os.path.isdir(tmp_root) else []}


def parse_stdout(text):
    m = re.findall(r'Total faults: (\d+)', text)
    return {'total_line': int(m[-1]) if m else None,
            'internal_errors': text.count('Internal error while checking the oracle')}


def completion_order(recs_by_batch):
    """Permutation of batch indices by compiler completion time."""
    order = [bi for bi, r in sorted(recs_by_batch.items(), key=lambda kv: kv[1]['t1'])]
    return order


def cell_session(cell):
    out = common.CellOut()
    lang = cell['lang']
    rig = Rig(lang, cell['_scratch'], cell.get('runid', 'x'))
    orders = {}
    try:
        if not rig.format_ok:
            out.skip('stand-in-format-not-understood-by-compiler-class')
            return out.result()
        rng = random.Random(cell['seed'])
        scripts = cell.get('scripts') or [make_script(rng, lang) for _ in range(cell['count'])]
        for script in scripts:
            session_in_process(out, rig, script, orders)
    finally:
        rig.close()
    out.info['orders_inproc'] = orders
    return out.result()


def session_in_process(out, rig, script, orders=None):
    lang = rig.lang
    tdir, text, recs, infos, abort, hung = run_script(rig, script)
    if hung:
        out.skip('session-watchdog')
        shutil.rmtree(tdir, ignore_errors=True)
        return None
    out.ev('inproc_sessions')
    out.ev('inproc_sessions_par' if script['workers'] else 'inproc_sessions_seq')
    ranges = batch_ranges(script['iterations'], script['batch'])
    rec_of = {}
    for r in recs:
        pids = {int(f['pid']) for f in r['files'] if f.get('pid') is not None}
        for bi, rg in enumerate(ranges):
            if pids and pids <= set(rg):
                rec_of.setdefault(bi, r)
    # batches whose programs all failed in the tool reach the compiler without files
    empties = [r for r in recs if not r['files']]
    batches = []
    for bi, rg in enumerate(ranges):
        progs = [infos[p] for p in rg if p in infos]
        r = rec_of.get(bi)
        if r is None and progs and all(not p['files'] for p in progs) and empties:
            r = empties.pop(0)
        complete = len(progs) == len(rg)
        batches.append({'programs': progs,
                        'behaviour': behaviour_of(r) if (r is not None and complete) else None})
    if script['workers'] and orders is not None and rec_of:
        o = completion_order(rec_of)
        key = 'n=%d:%s' % (len(o), 'identity' if o == sorted(o) else common.shape_hash(o))
        orders[key] = orders.get(key, 0) + 1
        if o != sorted(o):
            out.ev('inproc_sessions_with_overtaking')
    obs = observe_session_dir(tdir, rig.tmp_root)
    S = {'part': 'session', 'lang': lang, 'mode': 'par' if script['workers'] else 'seq',
         'options': {k: script[k] for k in ('iterations', 'batch', 'workers', 'keep_all')},
         'script': script, 'session_dir': tdir, 'batches': batches, 'keep_all': script['keep_all'],
         'abort': abort, 'processed': len(infos), 'mem_totals': dict(rig.h.STATS['totals'])}
    S.update(obs)
    S.update(parse_stdout(text))
    judge_session(out, S)
    shutil.rmtree(tdir, ignore_errors=True)
    for d in obs['tmp_left']:
        shutil.rmtree(os.path.join(rig.tmp_root, d), ignore_errors=True)
    return S


# --------------------------------------------------------------------------
# cell: whole sessions at the process boundary


def cli_params(rng, i, tier):
    lang = LANGS[i % 4]
    workers = [None, 1, 2, 4, 8][(i // 4) % 5] if tier == 'quick' else rng.choice([None, None, 1, 2, 4, 8])
    # generation costs seconds per program: small sessions in the quick tier, the whole
    # range (skewed towards short sessions) in the thorough one
    n = rng.randint(3, 8) if tier == 'quick' else int(3 + 37.99 * rng.random() ** 2.6)
    if not workers or workers == 1:
        n = min(n, 24)          # one generating process: keep the longest sessions for the pools
    return {'lang': lang, 'iterations': n, 'batch': rng.randint(1, 12), 'workers': workers,
            'transformations': rng.randint(0, 2), 'only_cp': rng.random() < 0.25,
            'keep_all': rng.random() < 0.3,
            'fk': {'seed': rng.randrange(1 << 30),
                   'p_reject_correct': rng.choice([0.05, 0.15, 0.3]),
                   'p_accept_incorrect': rng.choice([0.05, 0.15, 0.3]),
                   'p_crash': rng.choice([0.0, 0.1, 0.25]),
                   # compile times only matter for the completion order of worker-pool
                   # sessions; 2.5 s (a realistic kotlinc/scalac batch) lets a later batch
                   # overtake, which 0..300 ms cannot (the next batch's check is only
                   # submitted after its programs were generated, >= 0.7 s each)
                   'max_sleep_ms': rng.choice([0, 100, 300, 300, 2500]) if workers else 0,
                   'both_ok': rng.random() < 0.3}}


def cell_cli(cell):
    out = common.CellOut()
    P = cell['params']
    lang = P['lang']
    scratch = cell['_scratch']
    os.makedirs(scratch, exist_ok=True)
    boot.repo_on_path()
    mod = __import__('src.translators.' + lang, fromlist=['x'])
    tr = getattr(mod, lang.capitalize() + 'Translator')
    fname, iname = tr.get_filename(), tr.get_incorrect_filename()
    bugs = os.path.join(scratch, 'bugs')
    tdir = os.path.join(bugs, 's')
    tmp_root = tempfile.mkdtemp(prefix='vfc15_%s_' % cell.get('runid', 'x'), dir=TMPBASE)
    log = os.path.join(scratch, 'fakecc.log')
    cfg = dict(P['fk'], session_dir=tdir, correct_name=fname, incorrect_name=iname)
    cmd = [common.PY, os.path.join(common.REPO, 'hephaestus.py'), '--language', lang,
           '--bugs', bugs, '--name', 's', '--iterations', str(P['iterations']),
           '--batch', str(P['batch']), '-t', str(P['transformations']),
           '-F', os.path.join(scratch, 'logs')]
    if P['workers']:
        cmd += ['--workers', str(P['workers'])]
    if P['only_cp']:
        cmd += ['-P']
    if P['keep_all']:
        cmd += ['-k']
    env = dict(os.environ)
    env.update(PATH=FAKECC + os.pathsep + env.get('PATH', ''), PYTHONPATH=common.REPO,
               TMPDIR=tmp_root, VF_FAKECC_CFG=json.dumps(cfg), VF_FAKECC_LOG=log,
               PYTHONDONTWRITEBYTECODE='1', PYTHONHASHSEED='0')
    t0 = time.time()
    p = subprocess.Popen(cmd, cwd=scratch, env=env, stdout=subprocess.PIPE, stderr=subprocess.PIPE,
                         start_new_session=True)
    try:
        so, se = p.communicate(timeout=cell.get('timeout', 900))
    except subprocess.TimeoutExpired:
        # wall-clock watchdog, never a verdict; the worker pool must go too
        with contextlib.suppress(OSError):
            os.killpg(p.pid, signal.SIGKILL)
        p.communicate()
        out.skip('session-watchdog')
        shutil.rmtree(tmp_root, ignore_errors=True)
        shutil.rmtree(bugs, ignore_errors=True)
        return out.result()
    with contextlib.suppress(OSError):
        os.killpg(p.pid, signal.SIGKILL)      # stray pool workers, if any
    out.info['cli_wall_s'] = round(time.time() - t0, 1)
    text = so.decode('utf-8', 'replace')
    err = se.decode('utf-8', 'replace')
    out.ev('cli_sessions')
    out.ev('cli_sessions_par' if P['workers'] else 'cli_sessions_seq')
    recs = []
    try:
        with open(log) as f:
            recs = [json.loads(ln) for ln in f if ln.strip()]
    except OSError:
        pass
    vers = [r for r in recs if r.get('kind') == 'version']
    recs = [r for r in recs if r.get('kind') == 'compile']
    out.ev('cli_compiler_invocations', len(recs))
    if not vers:
        out.skip('stand-in-not-reached')
    abort = None
    if p.returncode != 0:
        m = re.findall(r'^(\w+(?:\.\w+)*(?:Error|Exception|Exit)\w*): (.*)$', err, re.M)
        fr = re.findall(r'File ".*?hephaestus\.py", line \d+, in (\w+)', err)
        abort = {'exc': m[-1][0] if m else 'exit-%d' % p.returncode, 'text': (m[-1][1] if m else err[-300:]),
                 'where': fr[-1] if fr else None}
    ranges = batch_ranges(P['iterations'], P['batch'])
    rec_of, ambiguous = {}, 0
    for r in recs:
        pids = {int(f['pid']) for f in r['files'] if f.get('pid') is not None}
        if any(f.get('pid') is None or f.get('role') is None for f in r['files']):
            ambiguous += 1
            continue
        hit = [bi for bi, rg in enumerate(ranges) if pids and pids <= set(rg)]
        if len(hit) == 1 and hit[0] not in rec_of:
            rec_of[hit[0]] = r
        else:
            ambiguous += 1
    if ambiguous:
        out.unjudged['compiler-record-not-attributable'] = ambiguous
    faults = read_json(os.path.join(tdir, 'faults.json')) or {}
    batches = []
    for bi, rg in enumerate(ranges):
        r = rec_of.get(bi)
        if r is None:
            batches.append({'programs': [], 'behaviour': None})
            continue
        progs = []
        for pid in rg:
            fs = [f for f in r['files'] if int(f['pid']) == pid]
            claimed = isinstance(faults.get(str(pid)), dict) and 'programs' not in faults[str(pid)]
            tool_failed = (not fs) or (claimed and len(fs) <= 1)
            if tool_failed:
                out.ev('cli_tool_failed_programs')
            progs.append({'pid': pid, 'tool_failed': tool_failed,
                          'files': [(f['path'], f['role'] == 'correct') for f in fs],
                          'staged': dict(r['staged'].get(str(pid), {})),
                          'tool_msg': None, 'injected': None})
            out.ev('cli_programs')
        batches.append({'programs': progs, 'behaviour': behaviour_of(r)})
    if P['workers'] and rec_of:
        o = completion_order(rec_of)
        key = 'n=%d:%s' % (len(o), 'identity' if o == sorted(o) else common.shape_hash(o))
        out.info['orders_cli'] = {key: 1}
        if o != sorted(o):
            out.ev('cli_sessions_with_overtaking')
    obs = observe_session_dir(tdir, tmp_root)
    S = {'part': 'cli', 'lang': lang, 'mode': 'par' if P['workers'] else 'seq',
         'options': {k: P[k] for k in ('iterations', 'batch', 'workers', 'transformations',
                                       'only_cp', 'keep_all')},
         'session_dir': tdir, 'batches': batches, 'keep_all': P['keep_all'], 'abort': abort,
         'processed': None, 'mem_totals': None}
    S.update(obs)
    S.update(parse_stdout(text + err))
    judge_session(out, S)
    shutil.rmtree(tmp_root, ignore_errors=True)
    if not cell.get('keep'):
        shutil.rmtree(bugs, ignore_errors=True)
    return out.result()


# --------------------------------------------------------------------------
# main / replay


def probe_src_resolution():
    """Which `src` would a session started with PYTHONPATH=$VERIF_REPO import?"""
    code = ("import sys, runpy\n"
            "sys.argv=['hephaestus.py','--bugs','/nonexistent','--dry-run']\n"
            "runpy.run_path(%r, run_name='vf_probe')\n"
            "print('SRC=' + sys.modules['src'].__path__[0] if hasattr(sys.modules['src'], '__path__') else '?')\n"
            "print('ARGS=' + sys.modules['src.args'].__file__)\n") % os.path.join(common.REPO, 'hephaestus.py')
    env = dict(os.environ, PYTHONPATH=common.REPO, PYTHONDONTWRITEBYTECODE='1')
    d = common.scratch('C15-probe')
    try:
        p = subprocess.run([common.PY, '-c', code], env=env, cwd=d, stdout=subprocess.PIPE,
                           stderr=subprocess.STDOUT, timeout=600)
        m = re.search(r'ARGS=(.*)', p.stdout.decode('utf-8', 'replace'))
        return m.group(1).strip() if m else 'unresolved: ' + p.stdout.decode('utf-8', 'replace')[-200:]
    except Exception as e:
        return 'unresolved: %r' % (e,)
    finally:
        common.cleanup('C15-probe')


def main(prop, tier):
    seed = common.seed_from_env()
    runid = '%d%d' % (os.getpid(), seed)
    agg = common.Agg(prop, tier)
    quick = tier == 'quick'
    src = probe_src_resolution()
    if not src.startswith(os.path.realpath(common.REPO)) and not src.startswith(common.REPO):
        agg.inconclusive.append('sessions would not import the tree under test: %s' % src)
    cells = []
    parts_on = set((os.environ.get('VERIF_C15_PARTS') or 'table,session,cli').split(','))
    n_cli = (12 if quick else 44) if 'cli' in parts_on else 0
    for i in range(n_cli):
        rng = random.Random(common.h32(seed, 'cli', i))
        cells.append(('cell_cli', {'params': cli_params(rng, i, tier), 'runid': runid}))
    cells.sort(key=lambda c: -c[1]['params']['iterations'] / (c[1]['params']['workers'] or 1))
    for lang in LANGS:
        parts = 2
        for part in range(parts if 'table' in parts_on else 0):
            cells.append(('cell_table', {'lang': lang, 'mode': 'exhaustive', 'sizes': [1, 2, 3],
                                         'part': part, 'parts': parts, 'runid': runid}))
        for j in range((1 if quick else 4) if 'table' in parts_on else 0):
            cells.append(('cell_table', {'lang': lang, 'mode': 'random', 'count': 150 if quick else 400,
                                         'seed': common.h32(seed, 'rnd', lang, j), 'runid': runid}))
            cells.append(('cell_table', {'lang': lang, 'mode': 'sequence', 'count': 120 if quick else 300,
                                         'seed': common.h32(seed, 'seq', lang, j), 'runid': runid}))
        for j in range((2 if quick else 8) if 'session' in parts_on else 0):
            cells.append(('cell_session', {'lang': lang, 'count': 12 if quick else 16,
                                           'seed': common.h32(seed, 'ses', lang, j), 'runid': runid}))
    # one fan-out: every cell carries its entry point
    all_cells = [dict(c, _fn=fn) for fn, c in cells]
    results = common.run_cells(TARGET + 'cell_any', all_cells, 'C15-%s' % runid, timeout=1500)
    agg.add_cells(results, allow_timeouts=0)
    for d in glob.glob(os.path.join(TMPBASE, 'vfc15_%s_*' % runid)):
        shutil.rmtree(d, ignore_errors=True)
    common.cleanup('C15-%s' % runid)
    ev = agg.events
    oc = agg.info.pop('orders_cli', {})
    oi = agg.info.pop('orders_inproc', {})
    extra = {
        'completion_orders': {
            'cli_sessions_in_workers_mode': ev.get('cli_sessions_par', 0),
            'cli_distinct_orders': len(oc),
            'cli_distinct_non_identity_orders': len([k for k in oc if not k.endswith('identity')]),
            'inproc_sessions_in_workers_mode': ev.get('inproc_sessions_par', 0),
            'inproc_distinct_orders': len(oi),
            'inproc_distinct_non_identity_orders': len([k for k in oi if not k.endswith('identity')]),
        },
        'session_src_resolves_to': src,
        'exhaustive_part': ('every batch of 1..3 programs over the 9 per-program states %s x compiler '
                              'crash {no,yes} x 4 languages = %d batches, all enumerated in both tiers; '
                              'larger batches, sequences and sessions are sampled'
                              % (STATES, 4 * 2 * sum(len(STATES) ** n for n in (1, 2, 3)))),
    }
    if 'table' in parts_on:
        agg.floor('table_batches', 650)
        agg.floor('random_batches', 60 if quick else 600)
        agg.floor('update_stats_calls', 100 if quick else 1500)
    if 'session' in parts_on:
        agg.floor('inproc_sessions_seq', 6 if quick else 40)
        agg.floor('inproc_sessions_par', 6 if quick else 40)
        agg.floor('session_batches', 40 if quick else 400)
        agg.floor('sessions_judged', 16 if quick else 120)
    if 'cli' in parts_on:
        agg.floor('cli_sessions', 4 if quick else 24)
        agg.floor('cli_sessions_par', 2 if quick else 8)
        agg.floor('cli_programs', 15 if quick else 120)
    if parts_on != {'table', 'session', 'cli'}:
        agg.inconclusive.append('development run restricted to parts %s' % sorted(parts_on))
    return agg.finish(
        rule=('evaluation = one judged batch (direct check_oracle call, or a batch of a judged session) '
              'or one end-of-session audit; shape = (language, ordered per-program state '
              '{T tool failed, Tp tool failed after staging, C:v only well-typed, CI:vw both} x verdicts '
              '{E error, K clean}, crash, workload/mode); non-trivial = the model reports at least one fault'),
        assumptions=[
            'compiler output is synthesised by vf/fakecc (no kotlinc/groovyc/scalac installed; javac is '
            'deliberately replaced too); each cell first checks with the real compiler class that the '
            'format is understood, otherwise nothing is judged',
            'batch temp dirs live under /tmp/vfc15_* (paths the compiler classes\' file regexes accept)',
            'leftovers are judged at the end of a session, as the statement says; with -k the generator/ '
            'and transformations/ trees are the requested output and are not leftovers',
            'in CLI sessions a program without any file reaching the compiler (or with the tool\'s own '
            'failure record) counts as "the tool failed on it"; its message is not judged there',
            '--debug, --rerun, --examine, --dry-run and --seconds are outside the workload',
        ],
        extra=extra, exhaustive=True)


def cell_any(cell):
    fn = cell.pop('_fn')
    return globals()[fn](cell)


def replay(prop, path):
    with open(path) as f:
        v = json.load(f)
    w = v.get('witness') or {}
    lang = w.get('lang', 'java')
    print('replaying %s witness (%s) against %s' % (w.get('part'), lang, common.REPO))
    print('recorded mech: %s' % json.dumps(v.get('mech')))
    scratch = common.scratch('C15-replay')
    out = common.CellOut()
    rig = Rig(lang, scratch, 'replay')
    try:
        if w.get('part') == 'session' and w.get('script'):
            session_in_process(out, rig, w['script'], {})
        elif w.get('part') == 'cli' and w.get('audit') and w.get('history'):
            # an end-of-session finding of a CLI session: re-run the same batches as a
            # scripted session through the real main() (same options, scripted programs)
            o = w['options']
            progs = {}
            for hb in w['history']:
                crash = hb['crash']
                for sp in hb['batch']:
                    sp = dict(sp)
                    if crash and sp['kind'] != 'T':
                        sp['crash'], crash = True, False
                    progs[str(sp['pid'])] = sp
            for pid in range(1, o['iterations'] + 1):
                progs.setdefault(str(pid), spec_of('C:K', pid))
            script = {'lang': lang, 'iterations': o['iterations'], 'batch': o['batch'],
                      'workers': o['workers'], 'keep_all': o['keep_all'], 'max_sleep_ms': 0,
                      'seed': 0, 'progs': progs}
            print('re-running the session in process: %s, %d programs' % (o, len(progs)))
            session_in_process(out, rig, script, {})
        else:
            hist = w.get('history') or [{'batch': w['batch'], 'crash': w.get('crash', False)}]
            tdir = rig.new_session_dir('r')
            for hb in hist:
                infos, obs = rig.direct_batch(hb['batch'], hb['crash'], tdir)
                vv, model, beh, _ = judge_direct(rig, lang, hb['batch'], hb['crash'], infos, obs, tdir)
                ww = witness_direct(lang, hb['batch'], hb['crash'], obs, model, beh)
                print('batch %s crash=%s' % ([state_of(s) for s in hb['batch']], hb['crash']))
                print('  model  : %s' % json.dumps(ww['model'], sort_keys=True))
                print('  real   : %s' % json.dumps(ww['real'], sort_keys=True, default=str)[:600])
                emit(out, vv, ww, None, False)
                if obs['exc'] is None:
                    with fd_capture(os.path.join(scratch, 'stdout.txt')):
                        rig.h.update_stats((obs['ret'], obs['ctime']), len(hb['batch']), 0.0)
                    print('  totals : %s' % rig.h.STATS['totals'])
                shutil.rmtree(obs['tmpdir'], ignore_errors=True)
    finally:
        rig.close()
        common.cleanup('C15-replay')
    for x in out.violations:
        print('reproduced: mech=%s msg=%s' % (json.dumps(x['mech'], sort_keys=True), x['msg']))
    if not out.violations:
        print('not reproduced (the batch is judged fine now)')
    return 1 if out.violations else 0
