"""Typelab: C06-C10, each decided on synthetic class tables built with the real
constructors AND on every call the real pipeline makes."""
import importlib
import json

from vf import common
from vf.boot import LANGS

MODS = {'C06': 'vf.monitors.m_c06', 'C07': 'vf.monitors.m_c07', 'C08': 'vf.monitors.m_c08',
        'C09': 'vf.monitors.m_c09', 'C10': 'vf.monitors.m_c10'}


def main(prop, tier):
    mod = importlib.import_module(MODS[prop])
    seed = common.seed_from_env()
    agg = common.Agg(prop, tier, seed)
    lab_cells = mod.lab_cells(tier, seed)
    tag = 'tl-%s' % prop
    res = common.run_cells('%s:cell_typelab' % MODS[prop], lab_cells, tag, timeout=1500)
    agg.add_cells(res)
    lab_events = dict(agg.events)
    # pipeline part: the same monitor module's Monitor class, via the pipeline lab
    from vf.labs import pipeline
    pipeline.MONITORS[prop] = MODS[prop]
    pcells = pipeline.make_cells(prop, seed, mod.pipeline_plan(tier, seed))
    res2 = common.run_cells('vf.labs.pipeline:cell_pipeline', pcells, tag + '-pipe', timeout=1500)
    agg.add_cells(res2)
    rc = mod.finish(agg, tier, lab_events)
    common.cleanup(tag)
    common.cleanup(tag + '-pipe')
    return rc


def replay(prop, path):
    mod = importlib.import_module(MODS[prop])
    with open(path) as f:
        w = json.load(f)
    wit = w.get('witness') or {}
    if 'case' in wit:
        from vf.labs import pipeline
        pipeline.MONITORS[prop] = MODS[prop]
        return pipeline.replay(prop, path)
    r = common.run_cells('%s:cell_replay' % MODS[prop], [{'witness': wit}], 'replay-' + prop, timeout=600)
    _, res, status = r[0]
    print('status', status)
    rc = 0
    if res:
        for v in res.get('violations', []):
            print('REPRODUCED', json.dumps(v.get('mech')), v.get('msg'))
            rc = 1
        print('info', res.get('info'))
    common.cleanup('replay-' + prop)
    return rc
