"""C19 — graph queries agree with their definitions (DESIGN 5/C19).

Workloads (all judged against vf/refgraph.py, networkx as second opinion):

  exh   every labelled digraph on 0..4 vertices, self-loops included
        (1 + 2 + 16 + 512 + 65 536 graphs), every vertex / vertex pair, every
        function of src/graph_utils.py; adjacency dict in which every vertex
        is a key (the shape the callers build)
  rnd   random digraphs of 5..9 vertices in nine structural classes (sparse,
        dense, DAG, cyclic, isolated vertices, long chain, two components,
        trees, tournament), four vertex-label kinds (int, str, tuple, the
        repository's GNode incl. NONE_NODE as default `none_node`), four
        adjacency containers, shuffled key / successor order
  pipe  the real TypeDependencyAnalysis / is_combination_feasible running
        inside TypeErasure on generated programs with `src.graph_utils.dfs`
        (and every other public function of that module) wrapped; every
        outermost call is judged on a snapshot of the same graph object

Cells are dispatched by `cell(cell)` on cell['kind'].
"""
import json
import os
import random
import signal
import traceback

from vf import common
from vf import refgraph as rg

FUNCS = rg.ALL_FUNCS
PAIR_FUNCS = ('reachable', 'bi_reachable', 'connected')
NONE_FUNCS = ('none_reachable', 'none_connected')
VERTEX_FUNCS = ('find_all_reachable', 'find_all_bi_reachable', 'find_all_connected',
                'find_sources', 'find_all_paths', 'find_longest_paths')
CAP_ALL_PATHS = 3000      # find_all_paths is linear in the number of paths
CAP_LONGEST = 250         # find_longest_paths is quadratic in it
KEEP_PER_MECH = 3         # witnesses kept per mechanism and cell
RAISE_BREAKER = 100       # per cell and function: stop calling after that many raising calls
PROGRAM_CALL_BUDGET = 4000   # outermost wrapped calls judged per program; beyond: every 40th
BUDGET_SAMPLING = 40
PROGRAM_WATCHDOG = 60     # CPU seconds (ITIMER_VIRTUAL) per generated program incl. its erasures
GRAPH_WATCHDOG = 120      # seconds for all calls on one graph (watchdog, never a verdict)
EXH_TOTAL = 1 + 2 + 16 + 512 + 65536
KNOWN_PATTERN = 'kept-iff-no-extension-of-length-2L-1'


# ---------------------------------------------------------------------------
# graphs from JSON-able specs (shared by the workloads and by replay)


class E(object):
    """Minimal edge object: all `dfs` needs is `.target`."""
    __slots__ = ('target', 'label')

    def __init__(self, target, label=0):
        self.target = target
        self.label = label

    def __repr__(self):
        return '->%r' % (self.target,)


def make_labels(kind, n, none_at=None):
    if kind == 'int':
        return list(range(n))
    if kind == 'str':
        return ['v%d' % i for i in range(n)]
    if kind == 'tuple':
        return [(('global', 'A', 'm%d' % (i % 3)), 'x%d' % i) for i in range(n)]
    if kind == 'gnode':
        from src.analysis.use_analysis import GNode, NONE_NODE
        out = [GNode(('global', 'A', 'm%d' % (i % 3)), 'x%d' % i) for i in range(n)]
        if none_at is not None:
            out[none_at] = NONE_NODE
        return out
    raise ValueError(kind)


_CONT = {'list': list, 'set': set, 'tuple': tuple, 'frozenset': frozenset,
         'dictkeys': lambda it: dict.fromkeys(it)}


def build_graph(spec, edges=False):
    """spec: n, succ[i] (ordered), labels, container, keys (insertion order;
    default all), none_at, edge ('obj'|'tda').  Returns (graph, labels)."""
    n = spec['n']
    succ = spec['succ']
    lab = make_labels(spec.get('labels', 'int'), n, spec.get('none_at'))
    keys = spec.get('keys')
    if keys is None:
        keys = range(n)
    if edges:
        if spec.get('edge') == 'tda':
            from src.analysis.type_dependency_analysis import Edge as ecls
        else:
            ecls = E
        g = {lab[i]: [ecls(lab[j], k & 1) for k, j in enumerate(succ[i])] for i in keys}
    else:
        cont = _CONT[spec.get('container', 'list')]
        g = {lab[i]: cont(lab[j] for j in succ[i]) for i in keys}
    return g, lab


def spec_from_mask(n, mask, container='list'):
    return {'n': n, 'container': container, 'labels': 'int',
            'succ': [[j for j in range(n) if mask >> (i * n + j) & 1] for i in range(n)]}


def mask_of(n, succ):
    m = 0
    for i in range(n):
        for j in succ[i]:
            m |= 1 << (i * n + j)
    return m


def graph_shape(n, succ):
    if n <= 5:
        return 'n%d:%x' % (n, rg.canon_mask(n, mask_of(n, succ)))
    return rg.wl_shape(n, succ)


# ---------------------------------------------------------------------------
# judging one call


def _js(x):
    if isinstance(x, frozenset):
        xs = list(x)
        if xs and isinstance(xs[0], tuple):
            return sorted(list(p) for p in xs)
        return sorted(xs)
    return x


def _ix(index, v):
    try:
        return index.get(v, -1)
    except TypeError:
        return -1


def quick_ok(func, exp, real, index):
    """Fast positive test; anything else goes to `diagnose`."""
    if func in rg.BOOL_FUNCS:
        return bool(real) == exp
    if func in rg.SET_FUNCS:
        if func == 'find_sources' and len(real) != len(exp):
            return False
        return frozenset(index[v] for v in real) == exp
    if len(real) != len(exp):
        return False
    return frozenset(tuple(index[v] for v in p) for p in real) == exp


def diagnose(func, ref, index, args, exp, real, exc):
    """-> None | dict(mech-extra..., real=json, msg=str).  Never raises."""
    try:
        return _diagnose(func, ref, index, args, exp, real, exc)
    except Exception as e:                                   # malformed answer
        return {'rule': 'malformed-answer', 'real': repr(real)[:300],
                'msg': 'answer could not be interpreted (%s: %s)' % (type(e).__name__, e)}


def _diagnose(func, ref, index, args, exp, real, exc):
    if exc is not None:
        return {'rule': 'exception', 'exc': type(exc).__name__,
                'real': '%s: %s' % (type(exc).__name__, str(exc)[:200]),
                'msg': 'raised %s' % type(exc).__name__}
    if func in rg.BOOL_FUNCS:
        got = bool(real)
        if got == exp:
            return None
        return {'rule': 'false-positive' if got else 'false-negative', 'real': got,
                'msg': 'answered %r, definition says %r' % (got, exp)}
    if func in rg.SET_FUNCS:
        items = [_ix(index, v) for v in real]
        got = frozenset(items)
        rule = None
        if -1 in got:
            rule = 'unknown-vertex-returned'
        elif got != exp:
            extra, missing = got - exp, exp - got
            if func == 'dfs' and not missing and extra == {args[0]}:
                rule = 'source-included'
            else:
                rule = ('missing-and-extra-vertex' if extra and missing else
                        'extra-vertex' if extra else 'missing-vertex')
        elif func == 'find_sources' and len(items) != len(got):
            rule = 'duplicate-source'
        if rule is None:
            return None
        return {'rule': rule, 'real': sorted(items),
                'msg': 'returned %s, definition gives %s' % (sorted(items), sorted(exp))}
    # path functions
    paths = [tuple(_ix(index, v) for v in p) for p in real]
    got = frozenset(paths)
    allp = frozenset(ref.simple_paths(args[0]))
    out = {'real': sorted(list(p) for p in paths)}
    if not got <= allp:
        bad = sorted(got - allp)[0]
        out.update(rule='non-path-returned',
                   msg='%s is not a simple path from %d' % (list(bad), args[0]))
        return out
    if len(paths) != len(got):
        out.update(rule='duplicate-path', msg='a path is returned more than once')
        return out
    if got == exp:
        return None
    missing, extra = exp - got, got - exp
    if missing:
        out.update(rule='path-missing' if func == 'find_all_paths' else 'maximal-path-missing',
                   msg='%s is missing' % list(sorted(missing)[0]))
        return out
    # find_longest_paths only: every maximal path present, plus non-maximal simple paths
    by_len = {}
    for p in allp:
        by_len.setdefault(len(p), set()).add(p)
    predicted = set()
    for x in allp - exp:
        ln = len(x)
        if ln >= 2 and not any(p[:ln] == x for p in by_len.get(2 * ln - 1, ())):
            predicted.add(x)
    out.update(rule='non-maximal-path-returned',
               pattern=KNOWN_PATTERN if extra == predicted else 'other',
               msg='%s is a proper prefix of another simple path' % list(sorted(extra)[0]))
    return out


class Watchdog(BaseException):
    pass


def _on_alarm(signum, frame):
    raise Watchdog()


class Judge(object):
    """Runs calls of one graph against the reference and books the outcome."""

    def __init__(self, out, gu, origin):
        self.out = out
        self.gu = gu
        self.origin = origin
        self.counts = {}
        self.raised = {}          # func -> calls that raised in this cell

    def bump(self, func):
        self.counts[func] = self.counts.get(func, 0) + 1

    def flush(self):
        for f, c in self.counts.items():
            self.out.ev('calls.' + f, c)
        self.counts = {}

    def one(self, func, fn, graph, lab, ref, index, spec, args, pass_args=None, cap=None):
        """Call fn(graph, *labels) and judge.  Returns the real answer."""
        try:
            exp = ref.expected(func, *args, cap=cap)
        except rg.TooManyPaths:
            self.out.skip('path-count>cap:' + func)
            return None
        pa = args if pass_args is None else pass_args
        if self.raised.get(func, 0) >= RAISE_BREAKER:
            # e.g. RecursionError on every cyclic graph: each costs milliseconds
            # and adds nothing once it is established; counted, not judged
            self.out.skip('skipped-after-%d-exceptions:%s' % (RAISE_BREAKER, func))
            return None
        real = exc = None
        try:
            real = fn(graph, *[lab[i] for i in pa])
        except Watchdog:
            raise
        except BaseException as e:       # incl. RecursionError
            if isinstance(e, (KeyboardInterrupt, SystemExit)):
                raise
            exc = e
            self.raised[func] = self.raised.get(func, 0) + 1
        self.bump(func)
        if exc is None:
            try:
                if quick_ok(func, exp, real, index):
                    self.out.judged += 1
                    return real
            except Exception:
                pass
        d = diagnose(func, ref, index, args, exp, real, exc)
        if d is None:
            self.out.judged += 1
            return real
        self.violation(func, d, spec, args, exp, len(pa))
        return real

    def violation(self, func, d, spec, args, exp, passed=None, names=None):
        """Every violation is counted per mechanism; the first KEEP_PER_MECH of
        each mechanism (per cell) are kept with their witness, so that a
        frequent known finding cannot crowd out a rare new one."""
        out = self.out
        mech = {'func': func, 'rule': d['rule']}
        for k in ('pattern', 'exc'):
            if k in d:
                mech[k] = d[k]
        mk = json.dumps(mech, sort_keys=True)
        out.judged += 1
        out.ev('violations.' + func)
        vc = out.info.setdefault('violation_counts', {})
        vc[mk] = vc.get(mk, 0) + 1
        if vc[mk] > KEEP_PER_MECH:
            return
        wit = {'func': func, 'graph': spec, 'args': list(args), 'real': d.get('real'),
               'expected': _js(exp), 'origin': self.origin,
               'edges_mode': func == 'dfs'}
        if passed is not None and passed != len(args):
            wit['default_none_node'] = True
        if names is not None:
            wit['vertex_names'] = names
        msg = '%s(g, %s) on n=%d succ=%s: %s' % (
            func, ', '.join(str(a) for a in args), spec['n'],
            json.dumps(spec['succ'])[:160], d.get('msg', ''))
        out.violations.append({'mech': mech, 'msg': msg, 'witness': wit})


def check_graph(J, spec, rnd=None, second_opinion=True, sample=False):
    """Every function, every vertex / pair (random sub-sampling of the none_*
    pairs for n > 4) on the graph described by `spec`."""
    out, gu = J.out, J.gu
    n, succ = spec['n'], spec['succ']
    ref = rg.Ref(n, succ)
    if second_opinion:
        out.ev('second_opinion.graphs')
        if not (ref.self_consistent() and rg.agrees_with_networkx(ref)):
            out.ev('oracle_disagreement')
            out.skip('reference-disagrees-with-second-opinion')
            out.info.setdefault('oracle_disagreements', []).append(spec)
            return
    g, lab = build_graph(spec)
    espec = dict(spec)
    if spec.get('drop_sink_keys'):
        espec['keys'] = [i for i in (spec.get('keys') or range(n)) if succ[i]]
    ge, _ = build_graph(espec, edges=True)
    index = {lab[i]: i for i in range(n)}
    nontrivial = any(succ)
    V = range(n)
    answers = {} if sample else None
    signal.alarm(GRAPH_WATCHDOG)
    try:
        for func in PAIR_FUNCS:
            fn = getattr(gu, func)
            for s in V:
                for d in V:
                    r = J.one(func, fn, g, lab, ref, index, spec, (s, d))
                    if answers is not None and s == 0:
                        answers['%s(0,%d)' % (func, d)] = r
        none_at = spec.get('none_at')
        for func in NONE_FUNCS:
            fn = getattr(gu, func)
            for v in V:
                if n <= 4 or rnd is None:
                    nones = V
                else:
                    nones = {rnd.randrange(n), rnd.randrange(n)}
                    if none_at is not None:
                        nones.add(none_at)
                for x in sorted(nones):
                    J.one(func, fn, g, lab, ref, index, spec, (v, x))
                    if x == none_at:      # the default argument is NONE_NODE
                        J.one(func, fn, g, lab, ref, index, spec, (v, x), pass_args=(v,))
        for func in VERTEX_FUNCS:
            fn = getattr(gu, func)
            cap = (CAP_ALL_PATHS if func == 'find_all_paths' else
                   CAP_LONGEST if func in ('find_longest_paths', 'find_all_reachable') else None)
            for v in V:
                if cap is not None:
                    try:
                        ref.simple_paths(v, cap)
                    except rg.TooManyPaths:
                        out.skip('path-count>cap:' + func)
                        continue
                r = J.one(func, fn, g, lab, ref, index, spec, (v,))
                if answers is not None and v == 0:
                    answers['%s(0)' % func] = _plain(r, index)
        fn = gu.dfs
        for v in V:
            r = J.one('dfs', fn, ge, lab, ref, index, espec, (v,))
            if answers is not None and v == 0:
                answers['dfs(0)'] = _plain(r, index)
    except Watchdog:
        out.ev('watchdog')
        out.skip('call-watchdog')
        return
    finally:
        signal.alarm(0)
    # the queries are read-only; a mutated input would invalidate later items
    try:
        if g != build_graph(spec)[0]:
            out.ev('graph_mutated')
    except Exception:
        out.ev('graph_mutated')
    if nontrivial:
        out.shapes.add(common.shape_hash(graph_shape(n, succ)))
    if answers is not None:
        out.sample({'origin': J.origin, 'n': n, 'succ': succ,
                    'class': spec.get('class'), 'answers': answers}, cap=3)


def _plain(r, index):
    try:
        if isinstance(r, (set, frozenset)):
            return sorted(index[v] for v in r)
        if isinstance(r, list):
            if r and isinstance(r[0], (list, tuple)) and not hasattr(r[0], '_fields'):
                return sorted([index[v] for v in p] for p in r)
            return [index[v] for v in r]
    except Exception:
        pass
    return repr(r)[:200]


# ---------------------------------------------------------------------------
# cells


def _load_gu(cell=None):
    from vf import boot
    boot.light()
    import src.graph_utils as gu
    assert gu.__file__.startswith(common.REPO), gu.__file__
    import networkx  # noqa: F401  (never let a watchdog interrupt this import)
    signal.signal(signal.SIGALRM, _on_alarm)
    return gu


def cell_exhaustive(cell):
    """All labelled digraphs on cell['n'] vertices with adjacency bitmask in
    [lo, hi); or every graph of every size in cell['sizes']."""
    out = common.CellOut()
    gu = _load_gu()
    J = Judge(out, gu, 'exhaustive')
    todo = []
    for n in cell.get('sizes', []):
        todo.append((n, 0, 1 << (n * n)))
    if 'n' in cell:
        todo.append((cell['n'], cell['lo'], cell['hi']))
    conts = cell.get('containers', ['list'])
    for n, lo, hi in todo:
        for mask in range(lo, hi):
            for ci, cont in enumerate(conts):
                spec = spec_from_mask(n, mask, cont)
                check_graph(J, spec, second_opinion=(ci == 0),
                            sample=(n == 4 and ci == 0 and mask % 9973 == 4680))
            out.ev('exh.graphs')
            out.ev('exh.graphs.n%d' % n)
    J.flush()
    return out.result()


CLASSES = ('sparse', 'dense', 'dag', 'cyclic', 'isolated', 'chain', 'two-components',
           'tree', 'tournament')
LABELS = ('int', 'str', 'tuple', 'gnode')
CONTAINERS = ('list', 'set', 'tuple', 'frozenset', 'dictkeys')


def random_spec(rnd, k):
    cls = CLASSES[k % len(CLASSES)]
    n = rnd.randint(5, 9)
    if cls == 'dense':
        n = rnd.choice((5, 5, 5, 6, 6, 7))
    elif cls == 'tournament':
        n = rnd.choice((5, 6))
    edges = set()

    def sprinkle(vs, p, loops):
        for i in vs:
            for j in vs:
                if (i != j and rnd.random() < p) or (i == j and rnd.random() < loops):
                    edges.add((i, j))
    perm = list(range(n))
    rnd.shuffle(perm)
    if cls == 'sparse':
        sprinkle(perm, rnd.uniform(0.6, 1.7) / n, 0.1)
    elif cls == 'dense':
        sprinkle(perm, rnd.uniform(0.45, 0.95), 0.3)
    elif cls == 'dag':
        p = rnd.uniform(0.15, 0.6)
        for a in range(n):
            for b in range(a + 1, n):
                if rnd.random() < p:
                    edges.add((perm[a], perm[b]))
    elif cls == 'cyclic':
        k2 = rnd.randint(2, n)
        cyc = perm[:k2]
        for a in range(k2):
            edges.add((cyc[a], cyc[(a + 1) % k2]))
        sprinkle(perm, rnd.uniform(0.0, 1.0) / n, 0.15)
    elif cls == 'isolated':
        iso = rnd.randint(1, 3)
        live = perm[iso:]
        if rnd.random() < 0.5:
            sprinkle(live, rnd.uniform(0.8, 2.0) / n, 0.1)
        else:
            for a in range(len(live)):
                for b in range(a + 1, len(live)):
                    if rnd.random() < 0.4:
                        edges.add((live[a], live[b]))
        if rnd.random() < 0.3:                     # isolated but for a self-loop
            edges.add((perm[0], perm[0]))
    elif cls == 'chain':
        for a in range(n - 1):
            edges.add((perm[a], perm[a + 1]))
        for _ in range(rnd.randint(0, 2)):
            edges.add((rnd.choice(perm), rnd.choice(perm)))
    elif cls == 'two-components':
        cut = rnd.randint(2, n - 2)
        for part in (perm[:cut], perm[cut:]):
            for a in range(1, len(part)):          # weakly connected spanning tree
                b = rnd.randrange(a)
                edges.add((part[a], part[b]) if rnd.random() < 0.5 else (part[b], part[a]))
            sprinkle(part, 0.1, 0.1)
    elif cls == 'tree':
        down = rnd.random() < 0.5
        for a in range(1, n):
            b = rnd.randrange(a)
            edges.add((perm[b], perm[a]) if down else (perm[a], perm[b]))
        if rnd.random() < 0.3:
            edges.add((rnd.choice(perm), rnd.choice(perm)))
    elif cls == 'tournament':
        for a in range(n):
            for b in range(a + 1, n):
                edges.add((a, b) if rnd.random() < 0.5 else (b, a))
    succ = [[] for _ in range(n)]
    for i, j in sorted(edges):
        succ[i].append(j)
    for s in succ:
        rnd.shuffle(s)
    keys = list(range(n))
    rnd.shuffle(keys)
    labels = LABELS[(k // len(CLASSES)) % len(LABELS)]
    spec = {'n': n, 'succ': succ, 'keys': keys, 'labels': labels, 'class': cls,
            'container': CONTAINERS[rnd.randrange(len(CONTAINERS))],
            'edge': 'tda' if rnd.random() < 0.5 else 'obj',
            'drop_sink_keys': rnd.random() < 0.5}
    if labels == 'gnode' and rnd.random() < 0.8:
        spec['none_at'] = rnd.randrange(n)
    return spec


def cell_random(cell):
    out = common.CellOut()
    gu = _load_gu()
    J = Judge(out, gu, 'random')
    rnd = random.Random(common.h32(cell['seed'], 'C19-rnd', cell['idx']))
    absent_done = 0
    for k in range(cell['count']):
        spec = random_spec(rnd, k + cell['idx'])
        check_graph(J, spec, rnd=rnd, sample=(k == 0 and cell['idx'] < 3))
        out.ev('rnd.graphs')
        out.ev('rnd.class.' + spec['class'])
        if absent_done < 20 and spec['labels'] != 'gnode':
            # a none_node that is no vertex of the graph: outside "every vertex
            # of it"; observed, not judged
            absent_done += 1
            g, lab = build_graph(spec)
            for func in NONE_FUNCS:
                try:
                    r = getattr(gu, func)(g, lab[0], ('absent',))
                    out.info.setdefault('absent_none_node_answers', {}).setdefault(repr(r), 0)
                    out.info['absent_none_node_answers'][repr(r)] += 1
                except Exception as e:
                    out.info.setdefault('absent_none_node_answers', {}).setdefault(type(e).__name__, 0)
                    out.info['absent_none_node_answers'][type(e).__name__] += 1
                out.skip('none_node-not-a-vertex')
    J.flush()
    return out.result()


# -- pipeline ----------------------------------------------------------------


class Monitor(object):
    """Wraps every public function of src.graph_utils (module attributes: the
    analysis calls `gu.dfs`, i.e. looks the name up in the module at call
    time).  Outermost calls are judged at call exit on a snapshot of the
    graph; inner calls (bi_reachable -> reachable ...) are only counted."""

    def __init__(self, gu, out):
        self.gu, self.out = gu, out
        self.J = Judge(out, gu, 'pipeline')
        self.depth = 0
        self.orig = {}
        self.case = None
        self.nx_every = 1
        self.ncalls = 0
        self.prog_calls = 0       # outermost calls within the current program
        self.over_budget = 0

    def install(self):
        for name in FUNCS:
            self.orig[name] = getattr(self.gu, name)
            setattr(self.gu, name, self._wrap(name, self.orig[name]))

    def _wrap(self, name, orig):
        mon = self

        def w(*a, **k):
            mon.depth += 1
            res = exc = None
            try:
                res = orig(*a, **k)
                return res
            except BaseException as e:
                exc = e
                raise
            finally:
                mon.depth -= 1
                try:
                    if isinstance(exc, Watchdog):
                        mon.out.ev('pipe.calls_cut_by_program_watchdog')
                    elif mon.depth == 0:
                        mon.record(name, a, k, res, exc)
                    else:
                        mon.out.ev('pipe.inner.' + name)
                except Exception:
                    mon.out.ev('pipe.monitor_error')
                    mon.out.info.setdefault('monitor_errors', []).append(
                        traceback.format_exc()[-400:])
        w.__name__ = name
        w.__wrapped__ = orig
        return w

    def record(self, name, a, k, res, exc):
        out = self.out
        out.ev('pipe.calls.' + name)
        self.ncalls += 1
        self.prog_calls += 1
        if self.prog_calls > PROGRAM_CALL_BUDGET and self.prog_calls % BUDGET_SAMPLING:
            # one erasure can enumerate > 10^6 combinations of one type graph
            self.over_budget += 1
            return
        nv = len(a) - 1
        if k or not (nv == rg.ARITY[name] or (name in NONE_FUNCS and nv == 1)):
            out.skip('pipe-unexpected-call-signature')
            return
        graph, vs = a[0], list(a[1:])
        edges = name == 'dfs'
        if name in NONE_FUNCS and len(vs) == 1:
            from src.analysis.use_analysis import NONE_NODE
            vs.append(NONE_NODE)
        labels, index, succ, all_keys = rg.extract(graph, edges=edges, extra=vs)
        if not edges and not all_keys:
            out.skip('pipe-vertex-not-a-key')
            return
        n = len(labels)
        ref = rg.Ref(n, succ)
        if self.ncalls % self.nx_every == 0:
            out.ev('second_opinion.graphs')
            if not (ref.self_consistent() and rg.agrees_with_networkx(ref)):
                out.ev('oracle_disagreement')
                out.skip('reference-disagrees-with-second-opinion')
                return
        args = tuple(index[v] for v in vs)
        try:
            exp = ref.expected(name, *args, cap=CAP_ALL_PATHS)
        except rg.TooManyPaths:
            out.skip('path-count>cap:' + name)
            return
        ok = False
        if exc is None:
            try:
                ok = quick_ok(name, exp, res, index)
            except Exception:
                ok = False
        d = None if ok else diagnose(name, ref, index, args, exp, res, exc)
        m = sum(len(s) for s in succ)
        if m:
            out.shapes.add(common.shape_hash(graph_shape(n, succ)))
            if edges and any(ref.R[j] >> i & 1 for i in range(n) for j in ref.succ[i]):
                out.ev('pipe.cyclic_graphs')
        if edges and not all_keys:
            out.ev('pipe.graphs_with_non_key_targets')
        out.ev('pipe.judged.' + name)
        if exp:
            out.ev('pipe.nonempty.' + name)
        if d is None:
            out.judged += 1
            if len(out.samples) < 2 and m and exp and len(exp) >= 2:
                out.sample({'origin': 'pipeline', 'case': self.case, 'func': name,
                            'n': n, 'succ': succ, 'args': list(args),
                            'vertex_names': [str(x)[:60] for x in labels],
                            'answer': _js(exp)}, cap=2)
            return
        nkeys = len(graph)
        spec = {'n': n, 'succ': succ, 'labels': 'int', 'edge': 'obj',
                'keys': list(range(nkeys)), 'container': 'list', 'case': self.case}
        self.J.violation(name, d, spec, args, exp,
                         names=[str(x)[:80] for x in labels])


def cell_pipeline(cell):
    out = common.CellOut()
    from vf import boot
    os.makedirs(cell['_scratch'], exist_ok=True)
    heph = boot.boot(language=cell['language'], switches=cell.get('switches', ()),
                     transformations=cell.get('transformations', 2),
                     bugs=os.path.join(cell['_scratch'], 'bugs'),
                     max_depth=cell.get('max_depth'))
    import src.graph_utils as gu
    assert gu.__file__.startswith(common.REPO), gu.__file__
    import src.analysis.type_dependency_analysis as tda
    assert tda.gu is gu
    mon = Monitor(gu, out)
    mon.nx_every = cell.get('nx_every', 1)
    mon.install()
    assert tda.gu.dfs.__wrapped__ is mon.orig['dfs']
    import networkx  # noqa: F401  (never let a watchdog interrupt this import)
    signal.signal(signal.SIGVTALRM, _on_alarm)
    for s in cell['seeds']:
        mon.case = {'language': cell['language'], 'seed': s,
                    'switches': list(cell.get('switches', ())),
                    'max_depth': cell.get('max_depth'),
                    'transformations': cell.get('transformations', 2)}
        mon.prog_calls = 0
        signal.setitimer(signal.ITIMER_VIRTUAL, cell.get('program_watchdog', PROGRAM_WATCHDOG))
        try:
            boot.reseed(s)
            heph.utils.random.reset_word_pool()
            proc = heph.ProgramProcessor(1, heph.cli_args)
            program, _ = proc.get_program()
            out.ev('pipe.programs')
            while proc.can_transform():
                res = proc.transform_program(program)
                out.ev('pipe.transformations')
                if res is not None:
                    program = res[0]
        except Watchdog:                # coverage, never a verdict
            out.ev('pipe.program_watchdog')
            out.skip('pipe-program-cut-by-watchdog')
        except Exception as e:          # internal failures are C18's subject
            out.ev('pipe.pipeline_exception')
            out.info.setdefault('pipeline_exceptions', []).append(
                '%s seed=%s %s: %s' % (cell['language'], s, type(e).__name__, str(e)[:120]))
        finally:
            signal.setitimer(signal.ITIMER_VIRTUAL, 0)
    if mon.over_budget:
        out.unjudged['pipe-call-over-program-budget'] = mon.over_budget
    return out.result()


def cell(cell):
    kind = cell['kind']
    if kind == 'exh':
        return cell_exhaustive(cell)
    if kind == 'rnd':
        return cell_random(cell)
    if kind == 'pipe':
        return cell_pipeline(cell)
    raise ValueError(kind)


# ---------------------------------------------------------------------------
# driver


SIZES = {
    #            exhaustive containers   random graphs  pipeline programs / cell, cells
    'quick':    {'containers': ['list'], 'rnd_cells': 16, 'rnd_count': 125,
                 'pipe_cells': 8, 'pipe_programs': 5, 'exh_cells': 32},
    'thorough': {'containers': ['list', 'set'], 'rnd_cells': 60, 'rnd_count': 1000,
                 'pipe_cells': 24, 'pipe_programs': 10, 'exh_cells': 32},
}


def plan(tier, seed):
    sz = SIZES.get(tier, SIZES['quick'])
    cells = []
    from vf.boot import LANGS, SWITCHES
    for i in range(sz['pipe_cells']):
        r = random.Random(common.h32(seed, 'C19-pipe', i))
        c = {'kind': 'pipe', 'language': LANGS[i % len(LANGS)],
             'seeds': [common.h32(seed, 'C19-prog', i, j) for j in range(sz['pipe_programs'])],
             'nx_every': 1 if tier == 'quick' else 3,
             'program_watchdog': 40 if tier == 'quick' else PROGRAM_WATCHDOG}
        if tier != 'quick' and i >= 8:
            c['switches'] = [s for s in SWITCHES if r.random() < 0.3]
            c['max_depth'] = r.choice((None, None, 5, 6, 7))
            c['transformations'] = r.choice((1, 2, 3))
        cells.append(c)
    per = (1 << 16) // sz['exh_cells']
    for i in range(sz['exh_cells']):
        cells.append({'kind': 'exh', 'n': 4, 'lo': i * per, 'hi': (i + 1) * per,
                      'containers': sz['containers']})
    cells.append({'kind': 'exh', 'sizes': [0, 1, 2, 3], 'containers': ['list', 'set', 'frozenset']})
    for i in range(sz['rnd_cells']):
        cells.append({'kind': 'rnd', 'idx': i, 'count': sz['rnd_count'], 'seed': seed})
    return cells, sz


def main(prop, tier):
    seed = common.seed_from_env()
    cells, sz = plan(tier, seed)
    tag = 'C19-%s-%d' % (tier, os.getpid())
    agg = common.Agg(prop, tier, seed)
    fixtures = rg.selftest()
    if fixtures:
        agg.inconclusive.append('reference self-test failed: ' + '; '.join(fixtures)[:400])
    results = common.run_cells('vf.labs.graphlab:cell', cells, tag,
                               timeout=1800 if tier == 'quick' else 3600)   # watchdog only
    agg.max_samples = 8
    # interleave sample origins: pipeline / exhaustive / random
    by_kind = {}
    for c, r, st in results:
        by_kind.setdefault(c['kind'], []).append((c, r, st))
    order = []
    pools = [list(v) for _, v in sorted(by_kind.items())]
    while any(pools):
        for p in pools:
            if p:
                order.append(p.pop(0))
    agg.add_cells(order)
    ev = agg.events
    # the exhaustive part must be complete, not merely "large"
    agg.floor('exh.graphs', EXH_TOTAL)
    rnd_total = sz['rnd_cells'] * sz['rnd_count']
    agg.floor('rnd.graphs', rnd_total)
    per_graph = {'reachable': 16, 'bi_reachable': 16, 'connected': 16, 'none_reachable': 16,
                 'none_connected': 16, 'dfs': 4}
    for f in FUNCS:
        agg.floor('calls.' + f, per_graph.get(f, 4) * 65536 * len(sz['containers']))
    agg.floor('pipe.programs', max(1, sz['pipe_cells'] * sz['pipe_programs'] // 2))
    # unchanged tree: ~780 outermost dfs calls per program (quick, seed 0)
    agg.floor('pipe.judged.dfs', 75 * sz['pipe_cells'] * sz['pipe_programs'])
    agg.floor('pipe.nonempty.dfs', 60 * sz['pipe_cells'] * sz['pipe_programs'])
    agg.floor('second_opinion.graphs', EXH_TOTAL + rnd_total)
    for bad, why in (('oracle_disagreement', 'reference and networkx disagree on %d graph(s)'),
                     ('graph_mutated', 'a query modified its input graph on %d graph(s)'),
                     ('watchdog', '%d graph(s) hit the per-graph call watchdog'),
                     ('pipe.monitor_error', 'the pipeline monitor failed on %d call(s)')):
        if ev.get(bad):
            agg.inconclusive.append(why % ev[bad])
    common.cleanup(tag)
    rule = ('item = one call (function, graph, vertex or vertex pair) compared with vf/refgraph.py; '
            'EXHAUSTIVE over all %d labelled digraphs with <= 4 vertices incl. self-loops '
            '(every vertex / pair, all 12 functions; containers %s), random beyond that '
            '(%d digraphs of 5..9 vertices in %d classes) and every outermost graph_utils call '
            'made by the real type-dependency analysis on generated programs. '
            'shape = graph up to relabeling (exact canonical adjacency mask for n <= 5, '
            'two-round colour-refinement fingerprint for n >= 6); non-trivial = at least one edge; '
            'edgeless graphs are judged but not counted as shapes.'
            % (EXH_TOTAL, '/'.join(sz['containers']), rnd_total, len(CLASSES)))
    assumptions = [
        'domain of the vertex-container functions: adjacency dict in which every vertex is a key; '
        'dfs additionally with edge targets that are no keys (the shape construct_edge builds)',
        'find_sources: in-degree counts self-loops; the order of the returned list is not judged, '
        'duplicates are; a vertex of in-degree 0 is its own source; no in-degree-0 ancestor => empty',
        'none_reachable / none_connected with a none_node that is no vertex of the graph are '
        'observed but not judged',
        'path functions are skipped (counted unjudged) on start vertices with more than %d '
        '(find_all_paths) / %d (find_longest_paths, find_all_reachable) simple paths: the real '
        'find_longest_paths is quadratic in that number' % (CAP_ALL_PATHS, CAP_LONGEST),
        'truthiness, set and multiset-of-paths equality are judged, container types are not',
        'pipeline type graphs: only dfs is called by the analysis (other wrappers stay at zero events); '
        'per program the first %d outermost calls are judged, then every %dth (one erasure can make '
        '> 10^6 calls on variants of one type graph); a program using more than %d CPU-seconds '
        '(40 on the quick tier) is cut (coverage only, counted)'
        % (PROGRAM_CALL_BUDGET, BUDGET_SAMPLING, PROGRAM_WATCHDOG),
    ]
    extra = {'exhaustive_graphs': ev.get('exh.graphs', 0),
             'random_graphs': ev.get('rnd.graphs', 0),
             'pipeline_programs': ev.get('pipe.programs', 0),
             'pipeline_dfs_calls_judged': ev.get('pipe.judged.dfs', 0),
             'pipeline_programs_cut_by_watchdog': ev.get('pipe.program_watchdog', 0)}
    return agg.finish(rule=rule, assumptions=assumptions, extra=extra, exhaustive=True)


# ---------------------------------------------------------------------------
# replay


def replay(prop, path):
    with open(path) as f:
        rec = json.load(f)
    wit = rec.get('witness', rec)
    gu = _load_gu()
    func, spec, args = wit['func'], wit['graph'], tuple(wit['args'])
    edges = bool(wit.get('edges_mode', func == 'dfs'))
    g, lab = build_graph(spec, edges=edges)
    n = spec['n']
    ref = rg.Ref(n, spec['succ'])
    index = {lab[i]: i for i in range(n)}
    exp = ref.expected(func, *args)
    pa = args[:1] if wit.get('default_none_node') else args
    print('replay %s: %s against %s' % (prop, func, gu.__file__))
    print('  graph    n=%d keys=%s succ=%s labels=%s container=%s%s' % (
        n, spec.get('keys', 'all'), json.dumps(spec['succ']), spec.get('labels', 'int'),
        'edge-objects' if edges else spec.get('container', 'list'),
        ' (index-relabelled copy of a type graph of case %s)' % json.dumps(spec['case'])
        if spec.get('case') else ''))
    if wit.get('vertex_names'):
        print('  vertices %s' % json.dumps(wit['vertex_names']))
    print('  call     %s(g, %s)' % (func, ', '.join(repr(lab[i]) for i in pa)))
    real = exc = None
    signal.alarm(GRAPH_WATCHDOG)
    try:
        real = getattr(gu, func)(g, *[lab[i] for i in pa])
    except Watchdog:
        print('  real     <no answer within %d s>' % GRAPH_WATCHDOG)
        return 2
    except BaseException as e:
        exc = e
    finally:
        signal.alarm(0)
    d = diagnose(func, ref, index, args, exp, real, exc)
    shown = d['real'] if d is not None else (_plain(real, index) if not isinstance(real, bool) else real)
    print('  real     %s' % json.dumps(shown, default=str))
    print('  expected %s' % json.dumps(_js(exp)))
    print('  recorded real=%s expected=%s' % (json.dumps(wit.get('real'), default=str),
                                              json.dumps(wit.get('expected'))))
    if d is None:
        print('  -> agrees with the definition now (not reproduced)')
        return 0
    mech = {'func': func, 'rule': d['rule']}
    for k in ('pattern', 'exc'):
        if k in d:
            mech[k] = d[k]
    print('  -> DISAGREES: mech=%s %s' % (json.dumps(mech, sort_keys=True), d.get('msg', '')))
    return 1
