"""C14 — compiler diagnostics are attributed to the right programs.

Workload
  synthetic   vf.diagsynth builds compiler outputs with embedded ground truth
              for javac / kotlinc / groovyc / scalac formats (files, errors per
              file, order, decoys, filter patterns, crash traces).
  real javac  small Java files `src/<word>/Main.java` with 0-5 type errors are
              compiled with the tool's own command line
              (`JavaCompiler(<tmp>/src).get_compiler_cmd()` through a shell, as
              hephaestus.run_command does) in a `tempfile.mkdtemp()` directory;
              truth = (a) each file compiled alone, (b) an independent line
              parser over the very same output.

Observation point: return value and `crash_msg` of
`<Compiler>(input_name, filter_patterns).analyze_compiler_output(output)` of the
classes imported from $VERIF_REPO.

Oracle (exactly the property, nothing stricter)
  * crash trace in the output  <=> crash_msg set;
  * otherwise set(failed) == files with >= 1 (non-filtered) error diagnostic;
  * len(failed[f]) == number of those diagnostics;
  * failed[f][i] carries the token of f's i-th diagnostic when the token lies on
    the part every format's message covers, and never the token of another
    file's diagnostic, of a warning or of a note;
  * filter patterns are whole-line patterns `.*text.*` over the line that carries
    the message (javac/kotlinc/groovyc) or the block header (scalac): a
    diagnostic whose line matches is disregarded, a file whose every diagnostic
    is disregarded is absent.
  Not judged: completeness of a returned message text (scalac messages are cut
  at the first `-`), residue of a *filtered* diagnostic inside another message.
"""
import json
import os
import random
import re
import shutil
import subprocess
import tempfile
import time

from vf import common
from vf import diagsynth as ds

CLASSES = {'java': ('src.compilers.java', 'JavaCompiler'), 'kotlin': ('src.compilers.kotlin', 'KotlinCompiler'),
           'groovy': ('src.compilers.groovy', 'GroovyCompiler'), 'scala': ('src.compilers.scala', 'ScalaCompiler')}

RULE = ('shape = (compiler, #files bucket, #error-diagnostics bucket, decoy/structure kinds present, '
        'crash trace kind@position, filter pattern kinds); non-trivial = at least one error diagnostic in the output; '
        'real javac batches: (java-real, #files bucket, #errors bucket, notes present, filter on/off)')


def compiler_class(name):
    from vf import boot
    boot.repo_on_path()
    import importlib
    mod, cls = CLASSES[name]
    m = importlib.import_module(mod)
    assert m.__file__.startswith(common.REPO), m.__file__
    return getattr(m, cls)


def analyze(name, input_name, patterns, output):
    """Run the code under test; never raises."""
    try:
        cls = compiler_class(name)
        comp = cls(input_name, list(patterns))
        res = comp.analyze_compiler_output(output)
        failed = res[0]
        if failed is not None:
            failed = {str(k): [v if isinstance(v, str) else repr(v) for v in vs] for k, vs in failed.items()}
        return {'failed': failed, 'crash': bool(comp.crash_msg), 'n_matches': len(res[1])}
    except Exception as e:                                   # noqa: BLE001
        return {'exc': '%s: %s' % (type(e).__name__, e)}


# --------------------------------------------------------------------------
# truth record (JSON-able; all the judge needs) and the judge


def framing_of(s):
    out = [f for f in s['flags'] if f in ds.FRAMING]
    out += [c for c in s.get('ctx', []) if c.startswith('after-') and c[6:] in ds.FRAMING]
    return out


def _must(b, s):
    """The token has to be in the returned message: it lies on the part the format's
    message certainly covers, and no filter pattern deletes a line of its block."""
    if not s['must'] or s['token'] in s['head']:
        return s['must']
    # a deleted line leaves an empty one, which ends a groovy message early: no line of the block may match
    return not any(p and re.search(p, ln) for ln in s['text'].split('\n') for p in b.get('patterns', []))


def truth_record(b):
    G, filt, crash, owner = ds.truth(b)
    cs = [s for s in b['segments'] if s['kind'] == 'crash']
    kinds_of = {}
    for s in b['segments']:
        if s['kind'] == 'error' and s['token'] in filt:
            ks = sorted({k for p, k in zip(b['patterns'], b['pattern_kinds']) if p and re.search(p, s['head'])})
            kinds_of[s['token']] = {'file': s['file'], 'kinds': ks}
    return {
        'compiler': b['compiler'], 'files': list(b['files']),
        'crash': {'kind': cs[0]['crash_kind'], 'pos': cs[0]['pos']} if cs else None,
        'G': {f: [{'token': s['token'], 'must': _must(b, s), 'framing': framing_of(s),
                   'last': 'last' in s.get('ctx', []), 'flags': s['flags']} for s in ss] for f, ss in G.items()},
        'filtered': kinds_of,
        'owner': {t: {'file': s['file'], 'kind': s['kind']} for t, s in owner.items()},
        'javalang': any('msg-javalang' in s['flags'] for s in b['segments']),
    }


def _cause(entries):
    fl = set()
    for e in entries:
        fl.update(e.get('framing', []))
    return '+'.join(sorted(fl)) or 'plain'


def judge(T, res):
    """-> (violations [(mech, msg)], observations {name: n})."""
    c = T['compiler']
    obs = {}
    V = []

    def add(rule, cause, msg, **kw):
        m = {'compiler': c, 'rule': rule, 'cause': cause}
        m.update(kw)
        if not any(x[0] == m for x in V):
            V.append((m, msg))
    if 'exc' in res:
        add('exception', res['exc'].split(':')[0], 'analyze_compiler_output raised ' + res['exc'])
        return V, obs
    if T['crash']:
        if not res['crash']:
            add('crash-missed', 'trace:' + T['crash']['kind'],
                'output carries a compiler-internal stack trace (%s) but crash_msg is unset' % T['crash']['kind'],
                pos=T['crash']['pos'])
        return V, obs
    if res['crash']:
        add('crash-false', 'msg-javalang' if T.get('javalang') else 'plain',
            'crash-free output classified as a crash')
        return V, obs
    failed = res['failed']
    if not isinstance(failed, dict):
        add('return-shape', 'failed-not-a-map', 'failed map is %r' % (failed,))
        return V, obs
    G, owner, filt = T['G'], T['owner'], T['filtered']
    filt_by_file = {}
    for t, d in filt.items():
        filt_by_file.setdefault(d['file'], []).append(t)
    for f in sorted(set(G) | set(failed)):
        E, R = G.get(f, []), failed.get(f, [])
        toks = [ds.TOKEN_RE.findall(m) for m in R]
        present = {t for ts in toks for t in ts}
        if len(R) > len(E):
            extra = present - {e['token'] for e in E}
            kinds = sorted({k for t in filt_by_file.get(f, []) for k in filt[t]['kinds']})
            if f not in T['files']:
                add('file-extra', 'not-a-batch-file', '%r is not a file of the batch: %r' % (f, R[:2]))
            elif filt_by_file.get(f) and (not extra or extra & set(filt_by_file[f])):
                add('filtered-still-present', 'pattern:' + '+'.join(kinds),
                    '%s: %d message(s) returned, %d expected after filtering' % (f, len(R), len(E)))
            elif any(owner.get(t, {}).get('kind') in ('warning', 'note', 'fileless') for t in extra):
                add('file-extra' if not E else 'count-mismatch', 'warning-counted',
                    '%s: a warning/note was returned as an error: %r' % (f, R[:2]))
            else:
                add('file-extra' if not E else 'count-mismatch', 'extra',
                    '%s: %d message(s) returned, %d error diagnostic(s) printed' % (f, len(R), len(E)))
            continue
        if len(R) < len(E):
            un = [e for e in E if e['must'] and e['token'] not in present] or E
            add('file-missing' if not R else 'error-dropped', _cause(un),
                '%s: %d error diagnostic(s) printed, %d returned' % (f, len(E), len(R)))
            continue
        for i, (e, ts) in enumerate(zip(E, toks)):
            if e['token'] is None:           # real javac: a message may name any token of its own file
                foreign = {t for t in ts if owner.get(t, {}).get('file') != f}
            else:
                foreign = set(ts) - {e['token']}
            residue = {t for t in foreign if t in filt}
            if residue:
                obs['filtered_residue_in_message'] = obs.get('filtered_residue_in_message', 0) + 1
            foreign -= residue
            if foreign:
                t = sorted(foreign)[0]
                o = owner.get(t)
                if o is None:
                    add('message-foreign', 'unknown-token', '%s[%d] carries unknown token %s' % (f, i, t))
                elif o['kind'] == 'error' and o['file'] != f:
                    src = [x for x in G.get(o['file'], []) if x['token'] == t]
                    add('message-moved', _cause(src + [e]),
                        "%s[%d] carries the text of %s's diagnostic %s" % (f, i, o['file'], t))
                elif o['kind'] == 'error':
                    add('message-misordered', _cause([e]), '%s[%d] carries the token of another diagnostic of the file' % (f, i))
                else:
                    add('message-foreign', o['kind'], '%s[%d] carries the text of a %s (%s)' % (f, i, o['kind'], t))
            elif e['must'] and e['token'] not in ts:
                add('message-lost', _cause([e]), '%s[%d] does not carry its diagnostic %s: %r' % (f, i, e['token'], R[i][:120]))
            if 'expect' in e and e['expect'] not in R[i]:
                add('message-lost', 'real-javac-text', '%s[%d]=%r does not contain %r' % (f, i, R[i][:160], e['expect']))
    return V, obs


# --------------------------------------------------------------------------
# shrinking a failing synthetic batch (keeps the same mechanism)


def run_batch(b):
    out = ds.render(b)
    T = truth_record(b)
    res = analyze(b['compiler'], b['input'], b['patterns'], out)
    V, obs = judge(T, res)
    return out, T, res, V, obs


def shrink(b, mech, budget=250):
    def fails(bb):
        nonlocal budget
        budget -= 1
        return any(m == mech for m, _ in run_batch(bb)[3])

    def without(bb, idx):
        nb = dict(bb)
        nb['segments'] = [dict(s) for i, s in enumerate(bb['segments']) if i not in idx]
        used = {s['file'] for s in nb['segments'] if s.get('file')}
        nb['files'] = [f for f in bb['files'] if f in used]
        syn = ds.Synth.__new__(ds.Synth)
        ds.Synth.annotate(syn, nb)
        return nb
    cur = b
    # whole files first, then single segments, then patterns
    for f in list(cur['files']):
        if budget <= 0:
            break
        idx = {i for i, s in enumerate(cur['segments']) if s.get('file') == f}
        if idx and len(idx) < len(cur['segments']):
            nb = without(cur, idx)
            if fails(nb):
                cur = nb
    changed = True
    while changed and budget > 0:
        changed = False
        for i in range(len(cur['segments']) - 1, -1, -1):
            if budget <= 0 or len(cur['segments']) <= 1:
                break
            nb = without(cur, {i})
            if fails(nb):
                cur, changed = nb, True
    for i in range(len(cur['patterns']) - 1, -1, -1):
        if budget <= 0:
            break
        nb = dict(cur)
        nb['patterns'] = cur['patterns'][:i] + cur['patterns'][i + 1:]
        nb['pattern_kinds'] = cur['pattern_kinds'][:i] + cur['pattern_kinds'][i + 1:]
        if fails(nb):
            cur = nb
    if cur is b:
        cur = without(b, set())
    return cur


def witness_of(b, mech, msg, note=None):
    out, T, res, V, _ = run_batch(b)
    msg = ([m2 for m, m2 in V if m == mech] or [msg])[0]
    return {'kind': 'synthetic', 'msg': msg, 'compiler': b['compiler'], 'input_name': b['input'], 'output': out,
            'filter_patterns': b['patterns'], 'truth': T, 'returned': res, 'note': note,
            'expected_failed': {f: [e['token'] for e in es] for f, es in T['G'].items()} if not T['crash'] else 'crash'}


# --------------------------------------------------------------------------
# cells


def cell_synth(cell):
    out = common.CellOut()
    syn = ds.Synth(common.REPO)
    rng = random.Random(common.h32(cell['seed'], 'C14-synth', cell['compiler'], cell['index']))
    comp = cell['compiler']
    shrunk = {}
    for n in range(cell['n']):
        b = syn.batch(rng, comp)
        text, T, res, V, obs = run_batch(b)
        out.ev('batches:' + comp)
        out.ev('analyze_calls')
        out.ev('error_diagnostics', sum(1 for s in b['segments'] if s['kind'] == 'error'))
        if T['crash']:
            out.ev('crash_batches:' + comp)
        if b['patterns']:
            out.ev('filter_batches:' + comp)
            out.ev('filtered_diagnostics', len(T['filtered']))
        for k, v in obs.items():
            out.ev('obs:' + k, v)
        if comp == 'scala' and not T['crash'] and isinstance(res.get('failed'), dict):
            for s in b['segments']:
                if s['kind'] == 'error' and 'explain-hint' in s['flags']:
                    ms = res['failed'].get(s['file'], [])
                    if any(s['token'] in m and '-explain' not in m for m in ms):
                        out.ev('obs:scala_message_cut_at_first_dash')
        sh, nontrivial = ds.shape(b)
        if not V:
            out.ok(sh, nontrivial)
            if cell['index'] == 0 and len(text) < 1400 and nontrivial and not T['crash'] and not out.samples and n > 20:
                out.sample({'compiler': comp, 'output': text, 'filter_patterns': b['patterns'],
                            'ground_truth': {f: [e['token'] for e in es] for f, es in T['G'].items()},
                            'returned': res})
            continue
        first = True
        for mech, msg in V:
            key = json.dumps(mech, sort_keys=True)
            if shrunk.get(key, 0) < 2:
                shrunk[key] = shrunk.get(key, 0) + 1
                small = shrink(b, mech)
                w = witness_of(small, mech, msg, note='shrunk from %d segments / %d files' % (
                    len(b['segments']), len(b['files'])))
            elif shrunk[key] < 6:
                shrunk[key] += 1
                w = witness_of(b, mech, msg) if len(text) < 6000 else {
                    'kind': 'synthetic', 'compiler': comp, 'note': 'not stored (large); see the shrunk witnesses'}
            else:
                w = None
            if w and w.get('msg'):
                msg = w['msg']
            if first:
                out.violation(mech, msg, w, sh)
                first = False
            elif len(out.violations) < 200:
                out.violations.append({'mech': mech, 'msg': msg, 'witness': w})
    return out.result()


# ---- real javac -----------------------------------------------------------

_ERR_STMTS = [
    ('stmt', '{T} v = "s";'),
    ('stmt', 'int v = new {T}();'),
    ('stmt', 'Undef{T} v = null;'),
    ('stmt', 'takesInt(new {T}());'),
    ('stmt', 'Box<? extends {T}> b = null; Box<{T}> c = b;'),
    ('stmt', 'Bnd<{T}> q = null;'),
    ('stmt', 'String s = new {T}().missing;'),
    ('method', '{T} r{N}() {{ return 1; }}'),
    ('stmt', 'String s = "error: " + 1; {T} t = s;'),
    ('stmt', 'String p = "Main.java"; {T} t = p;'),
    ('stmt', '{T} t = (1 > 0) ? "a" : "b"; /* see /tmp/tmpzz9_x1/src/zebra/Main.java */'),
    ('stmt', 'List<{T}> l = new ArrayList<String>();'),
    ('stmt', 'int d = "a" - new {T}();'),
    ('stmt', 'takesInt(1, new {T}());'),
    ('stmt', 'Function<? extends Number, ? extends {T}> f2 = Main::takesInt;'),
]


def gen_java_file(rng, pkg, nerr, used):
    toks, body, decl = [], [], []
    for i in range(nerr):
        t = 'Tk%06x' % rng.getrandbits(24)
        while t in used:
            t = 'Tk%06x' % rng.getrandbits(24)
        used.add(t)
        toks.append(t)
        decl.append('class %s {}' % t)
        kind, tmpl = rng.choice(_ERR_STMTS)
        code = tmpl.format(T=t, N=i)
        body.append('  void e%d() { %s }' % (i, code) if kind == 'stmt' else '  ' + code)
    if rng.random() < 0.35:
        body.append('  void u() { List raw = new ArrayList(); List<String> ls = raw; }')   # -> Note: lines
    if rng.random() < 0.5:
        body.append('  String ok() { return "error: none in Main.java:1"; }')
    rng.shuffle(body)
    src = ('package src.%s;\n\nimport java.util.*;\nimport java.util.function.*;\n\n%s\n'
           'class Box<T> { T v; }\nclass Bnd<T extends Number> { }\n\nclass Main {\n'
           '  static int takesInt(int x) { return x; }\n%s\n  public static void main(String[] a) { }\n}\n'
           % (pkg, '\n'.join(decl), '\n'.join(body)))
    return src, toks


_DRIVER = """
import javax.tools.*;
import java.io.*;
public class AloneDriver {
  public static void main(String[] a) throws Exception {
    JavaCompiler c = ToolProvider.getSystemJavaCompiler();
    for (int i = 1; i < a.length; i++) {
      ByteArrayOutputStream bo = new ByteArrayOutputStream();
      int rc = c.run(null, bo, bo, "-Xmaxerrs", "100000", "-nowarn", "-d", a[0], a[i]);
      System.out.println("@@@BEGIN " + rc + " " + a[i]);
      System.out.print(bo.toString("UTF-8"));
      System.out.println("@@@END");
    }
  }
}
"""

_IND = re.compile(r'^(.+\.java):(\d+): error: (.*)$')


def independent_parse(output):
    """(b): file -> [(line, message)] from header lines only; also the summary count."""
    per, total = {}, None
    for ln in output.split('\n'):
        m = _IND.match(ln)
        if m:
            per.setdefault(m.group(1), []).append((int(m.group(2)), m.group(3)))
        m = re.match(r'^(\d+) errors?$', ln.strip())
        if m:
            total = int(m.group(1))
    return per, total


def sh(cmd, cwd=None):
    env = os.environ.copy()
    env['JAVA_OPTS'] = '-Xmx8g'
    p = subprocess.Popen(cmd, stdout=subprocess.PIPE, stderr=subprocess.STDOUT, shell=True, env=env, cwd=cwd)
    o, _ = p.communicate()
    return p.returncode, (o or b'').decode('utf-8')


def cell_pool(cell):
    """Phase 1: a pool of Java files, each compiled alone once -> <scratch>/pool.json."""
    out = common.CellOut()
    if shutil.which('javac') is None:
        out.skip('javac-missing')
        return out.result()
    scratch = cell['_scratch']
    os.makedirs(scratch, exist_ok=True)
    rng = random.Random(common.h32(cell['seed'], 'C14-pool', cell['index']))
    words, special = ds.load_words(common.REPO)
    # pool of files, each compiled alone once: truth (a).  One JVM runs
    # `javac -Xmaxerrs 100000 -nowarn -d <scratch>/out <file>` per file through
    # javax.tools (the very same entry point as the command line) to save JVM starts.
    cand, used, pkgs = [], set(), set()
    while len(cand) < cell['pool']:
        pkg = rng.choice(special) if rng.random() < 0.15 else rng.choice(words)
        if pkg in pkgs:
            continue
        pkgs.add(pkg)
        nerr = rng.choice([0, 0, 1, 1, 2, 3, 4, 5])
        src, toks = gen_java_file(rng, pkg, nerr, used)
        d = os.path.join(scratch, 'pool', 'src', pkg)
        os.makedirs(d, exist_ok=True)
        path = os.path.join(d, 'Main.java')
        with open(path, 'w') as f:
            f.write(src)
        cand.append({'pkg': pkg, 'src': src, 'toks': toks, 'injected': nerr, 'path': path})
    drv = os.path.join(scratch, 'AloneDriver.java')
    with open(drv, 'w') as f:
        f.write(_DRIVER)
    os.makedirs(os.path.join(scratch, 'out'), exist_ok=True)
    rc, o = sh('java %s %s %s' % (drv, os.path.join(scratch, 'out'), ' '.join(c['path'] for c in cand)))
    blocks = re.findall(r'@@@BEGIN (-?\d+) (\S+)\n(.*?)@@@END\n', o, re.S)
    if rc != 0 or len(blocks) != len(cand):
        out.skip('alone-driver-failed')
        out.info['driver_log'] = o[-800:]
        return out.result()
    pool = []
    for c, (brc, bpath, btext) in zip(cand, blocks):
        out.ev('javac_alone_runs')
        per, total = independent_parse(btext)
        alone = per.get(c['path'], [])
        if bpath != c['path'] or (total or 0) != len(alone) or set(per) - {c['path']} or (brc == '0') != (not alone):
            out.skip('alone-run-not-understood')
            continue
        c['alone'] = alone
        pool.append(c)
    with open(os.path.join(scratch, 'pool.json'), 'w') as f:
        json.dump(pool, f)
    out.ev('pool_files', len(pool))
    return out.result()


def cell_real(cell):
    """Phase 2: batches drawn from a pool, compiled with the tool's command line."""
    out = common.CellOut()
    rng = random.Random(common.h32(cell['seed'], 'C14-real', cell['index']))
    JavaCompiler = compiler_class('java')
    try:
        with open(cell['pool_path']) as f:
            pool = [dict(p, alone=[tuple(x) for x in p['alone']]) for p in json.load(f)]
    except (OSError, ValueError):
        out.skip('pool-missing')
        return out.result()
    if not pool:
        out.skip('pool-empty')
        return out.result()
    for n in range(cell['n']):
        k = rng.randint(1, min(len(pool), rng.choice([3, 8, 20, 40])))
        pick, tot = [], 0
        for p in rng.sample(pool, k):
            if tot + len(p['alone']) <= 90:
                pick.append(p)
                tot += len(p['alone'])
        tmp = tempfile.mkdtemp()                     # exactly what hephaestus._run does
        try:
            paths = {}
            for p in pick:
                d = os.path.join(tmp, 'src', p['pkg'])
                os.makedirs(d)
                paths[p['pkg']] = os.path.join(d, 'Main.java')
                with open(paths[p['pkg']], 'w') as f:
                    f.write(p['src'])
            inp = os.path.join(tmp, 'src')
            cmd = ' '.join(JavaCompiler(inp).get_compiler_cmd())
            rc, text = sh(cmd)
        finally:
            shutil.rmtree(tmp, ignore_errors=True)
        out.ev('real_batches')
        out.ev('analyze_calls')
        per, total = independent_parse(text)
        if total is not None and total >= 100:
            out.skip('javac-maxerrs-truncation')
            continue
        if (total or 0) != sum(len(v) for v in per.values()):
            out.skip('independent-parser-disagrees-with-summary')
            continue
        a = {paths[p['pkg']]: p['alone'] for p in pick if p['alone']}
        if a == per:
            out.ev('real_batch_equals_alone_runs')
        else:
            out.ev('real_batch_differs_from_alone_runs')
            out.info.setdefault('alone_vs_batch', []).append(
                {'alone': {k: len(v) for k, v in a.items()}, 'batch': {k: len(v) for k, v in per.items()}})
        patterns = []
        if rng.random() < 0.35:
            patterns = [rng.choice(['.*cannot find symbol.*', '.*cannot be converted to int.*',
                                    '.*is not within bounds of type-variable.*', '.*no such text.*'])]
        owner = {t: {'file': paths[p['pkg']], 'kind': 'error'} for p in pick for t in p['toks']}
        G, filtered = {}, {}
        for f, lst in per.items():
            for (ln, msg) in lst:
                head = '%s:%d: error: %s' % (f, ln, msg)
                if any(re.search(pt, head) for pt in patterns):
                    filtered['line:%s:%d' % (f, ln)] = {'file': f, 'kinds': ['header-msg']}
                    continue
                G.setdefault(f, []).append({'token': None, 'must': False, 'framing': [], 'flags': [],
                                            'expect': ('%d: error: %s' % (ln, msg)).strip()})
        T = {'compiler': 'java', 'files': sorted(paths.values()), 'crash': None, 'G': G,
             'filtered': filtered, 'owner': owner, 'javalang': 'java.lang' in text}
        res = analyze('java', inp, patterns, text)
        V, obs = judge(T, res)
        shp = {'compiler': 'java-real',
               'files': ds.bucket(len(pick), [(1, 1, '1'), (2, 5, '2-5'), (6, 20, '6-20'), (21, 60, '21-60')]),
               'errors': ds.bucket(tot, [(0, 0, '0'), (1, 5, '1-5'), (6, 30, '6-30'), (31, 99, '31+')]),
               'notes': 'Note:' in text, 'clean_files': any(not p['alone'] for p in pick),
               'where_clause': '  where ' in text, 'filter': bool(patterns)}
        if not V:
            out.ok(shp, tot > 0)
            if len(text) < 1500 and tot > 0 and len(out.samples) < 1:
                out.sample({'compiler': 'java (real javac)', 'cmd': cmd, 'output': text, 'filter_patterns': patterns,
                            'ground_truth': {f: [e['expect'] for e in es] for f, es in G.items()}, 'returned': res})
            continue
        for j, (mech, msg) in enumerate(V):
            mech = dict(mech)
            mech['source'] = 'real-javac'
            w = {'kind': 'real-javac', 'compiler': 'java', 'input_name': inp, 'cmd': cmd, 'output': text,
                 'filter_patterns': patterns, 'truth': T, 'returned': res,
                 'sources': {paths[p['pkg']]: p['src'] for p in pick} if len(pick) <= 6 else None}
            if j == 0:
                out.violation(mech, msg, w, shp)
            else:
                out.violations.append({'mech': mech, 'msg': msg, 'witness': w})
    return out.result()


# --------------------------------------------------------------------------
# main / replay


SIZES = {'quick': {'synth_per_compiler': 2000, 'synth_cells': 4, 'pools': 1, 'pool': 40, 'real_cells': 10, 'real_n': 2},
         'thorough': {'synth_per_compiler': 50000, 'synth_cells': 16, 'pools': 6, 'pool': 60, 'real_cells': 30, 'real_n': 10}}


def main(prop, tier):
    seed = common.seed_from_env()
    sz = SIZES['thorough' if tier == 'thorough' else 'quick']
    agg = common.Agg(prop, tier, seed)
    tag = 'C14-%s-%d' % (tier, os.getpid())
    have_javac = shutil.which('javac') is not None
    cells = []
    if have_javac:                                  # slow cells first
        for i in range(sz['pools']):
            cells.append({'t': 'pool', 'seed': seed, 'index': i, 'pool': sz['pool']})
    per = sz['synth_per_compiler'] // sz['synth_cells']
    for c in ds.COMPILERS:
        for i in range(sz['synth_cells']):
            cells.append({'t': 'synth', 'seed': seed, 'compiler': c, 'index': i, 'n': per})
    res = common.run_cells('vf.labs.compilerlab:cell_any', cells, tag + '-a', timeout=1500)
    agg.add_cells(res)
    pools = [os.path.join(c['_scratch'], 'pool.json') for c, r, st in res if c['t'] == 'pool' and st == 'ok']
    if have_javac and pools:
        cells = [{'t': 'real', 'seed': seed, 'index': i, 'n': sz['real_n'], 'pool_path': pools[i % len(pools)]}
                 for i in range(sz['real_cells'])]
        agg.add_cells(common.run_cells('vf.labs.compilerlab:cell_any', cells, tag + '-b', timeout=1500))
    for c in ds.COMPILERS:
        agg.floor('batches:' + c, sz['synth_per_compiler'] // 10)
        agg.floor('crash_batches:' + c, sz['synth_per_compiler'] // 50)
        agg.floor('filter_batches:' + c, sz['synth_per_compiler'] // 50)
    agg.floor('error_diagnostics', sz['synth_per_compiler'] * 4)
    if have_javac:
        agg.floor('real_batches', max(2, sz['real_cells'] * sz['real_n'] // 10))
        agg.floor('real_batch_equals_alone_runs', max(1, sz['real_cells'] * sz['real_n'] // 10))
    else:
        agg.inconclusive.append('javac is missing: the real-javac part of C14 did not run')
    common.cleanup(tag + '-a')
    common.cleanup(tag + '-b')
    return agg.finish(
        rule=RULE,
        assumptions=[
            'kotlinc, groovyc and scalac outputs are synthesised (none of the compilers is installed): block shapes and '
            'message texts come from reported/bugs.json (kotlinc, groovyc), from groovy\'s SyntaxErrorMessage/ErrorCollector '
            'writers and from Scala 3 MessageRendering (page width 80 unless $COLUMNS is exported); javac outputs are '
            'synthesised from real javac 17 runs and additionally produced by real javac runs',
            'filter patterns are judged as whole-line patterns `.*text.*` over the line that carries the message '
            '(javac, kotlinc, groovyc) or over the block header (scalac); the tool deletes the matched text from the raw '
            'output before parsing, so a pattern that matches only part of that line cannot disregard a diagnostic',
            'batch directories look like tempfile.mkdtemp() results under /tmp, /var/tmp or a macOS-style $TMPDIR; '
            'package names are the lower-case words of src/resources/words',
            'real javac batches stay below 100 errors (the -Xmaxerrs truncation belongs to C02)',
        ],
        extra={'not_judged': ['completeness of a returned message text (scalac: cut at the first "-")',
                              'residue of a filtered diagnostic inside another returned message',
                              'groovyc file-less "warning:" lines (not modelled)'],
               'sizes': sz})


def cell_any(cell):
    return {'real': cell_real, 'pool': cell_pool, 'synth': cell_synth}[cell['t']](cell)


def replay(prop, path):
    with open(path) as f:
        rec = json.load(f)
    w = rec.get('witness') or rec
    if not w or 'output' not in w:
        print('replay: the record holds no output text (%s)' % (w or {}).get('note'))
        return 2
    res = analyze(w['compiler'], w['input_name'], w['filter_patterns'], w['output'])
    V, _ = judge(w['truth'], res)
    print('compiler        :', w['compiler'], '(%s)' % w.get('kind'), 'repo =', common.REPO)
    print('filter patterns :', w['filter_patterns'])
    print('--- output ' + '-' * 60)
    print(w['output'] if len(w['output']) < 4000 else w['output'][:4000] + '\n… (%d chars)' % len(w['output']))
    print('--- expected ' + '-' * 58)
    if w['truth']['crash']:
        print('crash trace', w['truth']['crash'], '=> crash_msg set')
    else:
        print(json.dumps({f: [e.get('token') or e.get('expect') for e in es] for f, es in w['truth']['G'].items()}, indent=1))
    print('--- returned now ' + '-' * 54)
    print(json.dumps(res, indent=1)[:3000])
    print('--- returned when recorded: %s' % ('same' if res == w.get('returned') else json.dumps(w.get('returned'))[:1500]))
    want = rec.get('mech')
    for m, msg in V:
        print('VIOLATION mech=%s  %s' % (json.dumps(m, sort_keys=True), msg))
    if not V:
        print('no violation on this tree')
        return 0
    if want and not any(all(m.get(k) == v for k, v in want.items() if k != 'source') for m, _ in V):
        print('note: the recorded mechanism %s was not reproduced, another one was' % json.dumps(want))
    return 1
