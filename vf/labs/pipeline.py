"""Pipeline lab: properties decided by running the real generate / erase /
overwrite / translate pipeline under monitors (C01-C05, C11-C13, C17, C18)."""
import importlib
import itertools
import json
import os
import sys

from vf import common
from vf.boot import SWITCHES, LANGS

MONITORS = {
    'C18': 'vf.monitors.m_c18', 'C11': 'vf.monitors.m_c11', 'C13': 'vf.monitors.m_c13',
    'C17': 'vf.monitors.m_c17', 'C03': 'vf.monitors.m_c03', 'C04': 'vf.monitors.m_c04',
    'C01': 'vf.monitors.m_c01', 'C05': 'vf.monitors.m_c01', 'C02': 'vf.monitors.m_c02',
    'C12': 'vf.monitors.m_c12',
    'C06': 'vf.monitors.m_c06', 'C07': 'vf.monitors.m_c07', 'C08': 'vf.monitors.m_c08',
    'C09': 'vf.monitors.m_c09', 'C10': 'vf.monitors.m_c10',
}


def switch_subsets():
    out = []
    for r in range(len(SWITCHES) + 1):
        for c in itertools.combinations(SWITCHES, r):
            out.append(list(c))
    return out


def cell_pipeline(cell):
    """One (language, switches, depth) cell: boot once, run its seeds."""
    from vf import boot, engine
    os.makedirs(cell['_scratch'], exist_ok=True)
    os.environ['VERIF_SCRATCH'] = cell['_scratch']
    extra = list(cell.get('extra_argv', []))
    heph = boot.boot(language=cell['lang'], switches=cell.get('switches', ()),
                     max_depth=cell.get('max_depth'), transformations=cell.get('transformations', 2),
                     bugs=os.path.join(cell['_scratch'], 'bugs'), extra_argv=extra,
                     pool_seed=cell.get('pool_seed', 0), shim=cell.get('shim', True))
    if cell.get('cfg'):
        from src.generators.config import cfg
        cfg.json_config(cell['cfg'])
    out = common.CellOut()
    mod = importlib.import_module(MONITORS[cell['prop']])
    mon = mod.Monitor(out, cell)
    observers = [mon]
    for seed in cell['seeds']:
        case = engine.Case(cell['lang'], seed, cell.get('switches', ()), cell.get('max_depth'))
        case.pool_seed = cell.get('pool_seed', 0)
        engine.run_case(heph, case, observers,
                        n_transformations=cell.get('transformations', 2),
                        inject=cell.get('inject', True), translate=cell.get('translate', True))
        out.ev('cases')
        if case.failed_at:
            out.ev('cases-failed-internally')
    fin = getattr(mon, 'finish', None)
    if fin:
        fin()
    return out.result()


def make_cells(prop, seed, plan):
    """plan: list of dicts(lang, switches, max_depth, n, **extra) -> cells of
    <= chunk seeds each."""
    cells = []
    for i, p in enumerate(plan):
        n = p.pop('n')
        chunk = p.pop('chunk', 10)
        key = (p['lang'], tuple(p.get('switches', ())), p.get('max_depth'), p.get('tag', ''))
        seeds = [common.h32(seed, prop, key, j) for j in range(n)]
        for a in range(0, n, chunk):
            c = dict(p)
            c['prop'] = prop
            c['seeds'] = seeds[a:a + chunk]
            # each cell samples its own 10 000-word identifier pool (src/utils samples it at import)
            c.setdefault('pool_seed', common.h32(seed, prop, 'pool', key, a) % 100000)
            cells.append(c)
    return cells


def main(prop, tier):
    mod = importlib.import_module(MONITORS[prop])
    seed = common.seed_from_env()
    plan = mod.plan(tier, seed)
    cells = make_cells(prop, seed, plan)
    tag = 'pipe-%s' % prop
    agg = common.Agg(prop, tier, seed)
    results = common.run_cells('vf.labs.pipeline:cell_pipeline', cells, tag,
                               timeout=getattr(mod, 'CELL_TIMEOUT', 1500))
    agg.add_cells(results)
    rc = mod.finish(agg, tier)
    common.cleanup(tag)
    return rc


def replay(prop, path):
    with open(path) as f:
        w = json.load(f)
    case = (w.get('witness') or {}).get('case')
    if not case:
        print('no case in witness')
        return 3
    cell = {'prop': prop, 'lang': case['lang'], 'switches': case.get('switches', []),
            'max_depth': case.get('max_depth'), 'seeds': [case['seed']],
            'pool_seed': case.get('pool_seed', 0)}
    cell.update((w.get('witness') or {}).get('cell_extra', {}))
    results = common.run_cells('vf.labs.pipeline:cell_pipeline', [cell], 'replay-%s' % prop, timeout=1500)
    _, res, status = results[0]
    print('status', status)
    if res:
        for v in res.get('violations', []):
            print('REPRODUCED', json.dumps(v.get('mech')), v.get('msg'))
        print('events', res.get('events'))
    common.cleanup('replay-%s' % prop)
    return 1 if res and res.get('violations') else 0
