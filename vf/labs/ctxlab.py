"""C16 - the symbol table behaves like a scoped map.

Operation histories are executed on the REAL `src.ir.context.Context` (imported
from $VERIF_REPO) and, step by step, on the reference model `vf.ctxmodel`
(written from the property statement).  After every step a battery of public
queries is compared; the first divergence of a history is a violation.

Families
  unique      every added value is a fresh object, added once
  shared      some objects are re-added (other namespace / same namespace);
              reverse lookup of those objects is not judged
  exhaustive  all histories of length <= L over 2 names x 2 namespaces x
              2 kinds x {add, remove}; the full battery runs after the last
              operation (every prefix is itself one of the histories)

Batteries: `battery` (about 45 comparisons: touched namespace, one namespace
below/elsewhere, touched kind + decls + one other kind, all three modes, both
`none`, point lookups, reverse lookups, traversal queries), `light_battery`
(about 15; only on thorough-tier histories beyond the first 10 000) and
`full_battery` (every query on every namespace the history mentions).

A divergence ends its history and is shrunk (greedy one-operation removal that
keeps the same query/rule) before it is written as a witness.  The one listed
finding (C16-D1, reverse entry dropped by a same-name removal of another kind)
is reported once per history WITHOUT ending it.

A history is JSON: {"ops": [["add", kind, [ns..], name, vid|null] |
["rm", kind, [ns..], name]], "names": [...], "qseed": int, ...}; `vid` names
the value object (same vid = same object), null = artificial None entry.
"""
import itertools
import json
import math
import os
import random
import time

from vf import common
from vf.ctxmodel import ScopedMap, Unjudged, KINDS, DECL_KINDS, MAPS

ROOT = 'global'
GETTER = {'vars': 'get_vars', 'funcs': 'get_funcs', 'classes': 'get_classes',
          'types': 'get_types', 'lambdas': 'get_lambdas', 'decls': 'get_declarations'}
ADDER = {'types': 'add_type', 'funcs': 'add_func', 'lambdas': 'add_lambda',
         'vars': 'add_var', 'classes': 'add_class'}
REMOVER = {'types': 'remove_type', 'funcs': 'remove_func', 'lambdas': 'remove_lambda',
           'vars': 'remove_var', 'classes': 'remove_class'}
SHORT = {'types': 'type', 'funcs': 'func', 'lambdas': 'lambda', 'vars': 'var',
         'classes': 'class'}
MODES = ('current', 'path', 'glob')
CROSS_KIND = 'same-name-removal-of-another-kind'
_ABSENT = object()

RULE = ('a history shape is the sequence of (op, kind, namespace depth, name index by first '
        'use); it is non-trivial when some removal hits a live entry or some addition '
        'overwrites / shadows an entry of the same kind on its namespace path')


# --------------------------------------------------------------------------
# real values


class Values:
    def __init__(self):
        from src.ir import ast, types as tp
        self.ast, self.tp = ast, tp
        self.int = tp.SimpleClassifier('Int')
        self.by_vid = {}
        self.label = {}
        self.fresh = []          # (object, kind) in creation order

    def make(self, kind, name, vid):
        ast = self.ast
        if kind == 'vars':
            if vid % 3 == 0:
                return ast.VariableDeclaration(name, ast.BottomConstant(self.int),
                                               var_type=self.int)
            if vid % 3 == 1:
                return ast.FieldDeclaration(name, self.int)
            return ast.ParameterDeclaration(name, self.int)
        if kind == 'funcs':
            return ast.FunctionDeclaration(name, [], self.int, None,
                                           ast.FunctionDeclaration.FUNCTION)
        if kind == 'classes':
            return ast.ClassDeclaration(name, [])
        if kind == 'lambdas':
            return ast.Lambda(name, [], self.int, None, None)
        return self.tp.TypeParameter(name)

    def get(self, kind, name, vid):
        if vid is None:
            return None
        v = self.by_vid.get(vid)
        if v is None:
            v = self.by_vid[vid] = self.make(kind, name, vid)
            self.label[id(v)] = '%s#%d' % (SHORT[kind], vid)
            self.fresh.append((v, kind))
        return v

    def show(self, v):
        if v is None:
            return 'None'
        if v is _ABSENT:
            return '<absent>'
        return self.label.get(id(v)) or '<foreign %s>' % type(v).__name__


def op_text(op):
    ns = tuple(op[2])
    if op[0] == 'add':
        v = 'None' if op[4] is None else '%s#%d' % (SHORT[op[1]], op[4])
        return '%s(%r, %r, %s)' % (ADDER[op[1]], ns, op[3], v)
    return '%s(%r, %r)' % (REMOVER[op[1]], ns, op[3])


# --------------------------------------------------------------------------
# one history on the real Context and on the model


class Runner:
    def __init__(self, hist, kinds_full=MAPS, want=None):
        self.want = want
        self.side = None
        self.side_hits = 0
        from src.ir.context import Context, get_decl
        self.ctx = Context()
        self.module_get_decl = get_decl
        self.m = ScopedMap()
        self.vals = Values()
        self.hist = hist
        self.names = list(hist.get('names') or ['a', 'b'])
        self.kinds_full = kinds_full
        self.known_ns = {(ROOT,): None}
        self.judged = 0
        self.unj = {}
        self.ev = {}
        self.div = None
        self.nontrivial = False
        self.step = -1
        self._gc = {}

    # ---- bookkeeping -----------------------------------------------------
    def _ev(self, k):
        self.ev[k] = self.ev.get(k, 0) + 1

    def _unj(self, k):
        self.unj[k] = self.unj.get(k, 0) + 1

    def diverge(self, mech, query, expected, got):
        if self.want and (mech.get('query'), mech.get('rule'), mech.get('cause')) != self.want:
            return False                 # shrinking: look for one mechanism only
        if self.div is None:
            self.div = {'step': self.step, 'mech': mech, 'query': query,
                        'expected': expected, 'got': got}
        return True

    def show_items(self, items):
        return '{' + ', '.join('%s: %s' % (k, self.vals.show(v)) for k, v in items) + '}'

    # ---- updates ---------------------------------------------------------
    def apply(self, step, op):
        self.step = step
        self._gc = {}
        kind, ns, name = op[1], tuple(op[2]), op[3]
        for k in range(1, len(ns) + 1):
            self.known_ns.setdefault(ns[:k], None)
        if name not in self.names:
            self.names.append(name)
        try:
            if op[0] == 'add':
                v = self.vals.get(kind, name, op[4])
                if any(name in self.m.entries(ns[:k], kind) for k in range(1, len(ns) + 1)):
                    self.nontrivial = True
                self._ev('op:' + ADDER[kind])
                getattr(self.ctx, ADDER[kind])(ns, name, v)
                self.m.add(kind, ns, name, v)
            else:
                if name in self.m.entries(ns, kind):
                    self.nontrivial = True
                self._ev('op:' + REMOVER[kind])
                getattr(self.ctx, REMOVER[kind])(ns, name)
                self.m.remove(kind, ns, name)
        except Exception as e:                      # the update itself failed
            self.diverge({'query': ADDER[kind] if op[0] == 'add' else REMOVER[kind],
                          'rule': 'exception'}, op_text(op), 'no exception',
                         '%s: %s' % (type(e).__name__, e))

    # ---- comparisons -----------------------------------------------------
    def q_range(self, kind, ns, mode, none):
        qn = GETTER[kind]
        self._ev('q:' + qn)
        q = '%s(%r, only_current=%s, glob=%s, none=%s)' % (
            qn, ns, mode == 'current', mode == 'glob', none)
        mech = {'query': qn, 'mode': mode, 'none': none}
        try:
            items = list(getattr(self.ctx, qn)(ns, only_current=(mode == 'current'),
                                               glob=(mode == 'glob'), none=none).items())
        except Exception as e:
            return self.diverge(dict(mech, rule='exception'), q, 'a mapping',
                                '%s: %s' % (type(e).__name__, e))
        if mode == 'current':
            exp = self.m.current(ns, kind, none)
            if len(items) == len(exp) and all(a[0] == b[0] and a[1] is b[1]
                                              for a, b in zip(items, exp)):
                self.judged += 1
                return False
            gd = dict(items)
            same_content = len(items) == len(exp) and all(
                k in gd and gd[k] is v for k, v in exp)
            return self.diverge(dict(mech, rule='insertion-order' if same_content else 'content'),
                                q, self.show_items(exp), self.show_items(items))
        if mode == 'path':
            exp, alt = self.m.path(ns, kind, none)
            ok = len(items) == len(exp) and all(k in exp and exp[k] is v for k, v in items)
            if not ok and alt is not None:
                ok = len(items) == len(alt) and all(k in alt and alt[k] is v for k, v in items)
            if ok:
                if alt is None:
                    self.judged += 1
                else:
                    self._unj('path-union-none=False-with-None-entry-shadowing:two-readings')
                return False
            same_keys = len(items) == len(exp) and all(k in exp for k, _ in items)
            return self.diverge(dict(mech, rule='shadowing' if same_keys else 'content'), q,
                                self.show_items(exp.items()), self.show_items(items))
        # global query
        cands = self._gc.get(kind)
        if cands is None:
            cands = self._gc[kind] = self.m.glob_candidates((ns[0],), kind)
        gd = dict(items)
        collide = through_none = False
        for name, (call, cstrict) in cands.items():
            got = gd.get(name, _ABSENT)
            if len(call) == 1 and len(cstrict) == 1:
                want = call[0]
                if want is None and not none:
                    want = _ABSENT
                if got is not want:
                    return self.diverge(dict(mech, rule='content'), q,
                                        '%s: %s' % (name, self.vals.show(want)),
                                        '%s: %s   (whole answer %s)' % (
                                            name, self.vals.show(got), self.show_items(items)))
                continue
            if len(call) > 1:
                collide = True
            else:
                through_none = True
            if got is _ABSENT:
                ok = (not cstrict) or (not none and any(c is None for c in call))
            else:
                ok = any(got is c for c in call) and (none or got is not None)
            if not ok:
                return self.diverge(
                    dict(mech, rule='not-a-live-candidate'), q,
                    '%s: one of [%s]' % (name, ', '.join(self.vals.show(c) for c in call)),
                    '%s: %s' % (name, self.vals.show(got)))
        for name, got in items:
            if name not in cands:
                return self.diverge(dict(mech, rule='content'), q, '%s: <absent>' % name,
                                    '%s: %s' % (name, self.vals.show(got)))
        if collide:
            self._unj('glob-exact:name-live-in-several-reachable-namespaces')
        elif through_none:
            self._unj('glob-exact:namespace-reachable-only-through-None-entry')
        else:
            self.judged += 1
        return False

    def q_point(self, which, ns, name):
        """Context.get_decl / Context.get_lambda"""
        self._ev('q:' + which)
        kind = 'decls' if which == 'get_decl' else 'lambdas'
        q = '%s(%r, %r)' % (which, ns, name)
        try:
            got = getattr(self.ctx, which)(ns, name)
        except Exception as e:
            return self.diverge({'query': which, 'rule': 'exception'}, q, 'a value',
                                '%s: %s' % (type(e).__name__, e))
        exp = self.m.lookup(ns, kind, name)
        if got is exp:
            self.judged += 1
            return False
        return self.diverge({'query': which, 'rule': 'value'}, q,
                            self.vals.show(exp), self.vals.show(got))

    def q_outward(self, ns, name, limit):
        self._ev('q:module.get_decl')
        q = 'get_decl(context, %r, %r, limit=%r)' % (ns, name, limit)
        mech = {'query': 'module.get_decl', 'limit': limit is not None}
        try:
            got = self.module_get_decl(self.ctx, ns, name, limit)
        except Exception as e:
            return self.diverge(dict(mech, rule='exception'), q, 'a pair or None',
                                '%s: %s' % (type(e).__name__, e))
        exp = self.m.lookup_outward(ns, name, limit)
        if exp is None or got is None:
            ok = exp is None and got is None
        else:
            ok = (isinstance(got, tuple) and len(got) == 2 and tuple(got[0]) == exp[0]
                  and got[1] is exp[1])
        if ok:
            self.judged += 1
            return False

        def sh(r):
            return 'None' if r is None else '(%r, %s)' % (r[0], self.vals.show(r[1]))
        rule = ('not-found' if got is None else 'found-but-absent' if exp is None
                else 'wrong-namespace' if tuple(got[0]) != exp[0] else 'value')
        return self.diverge(dict(mech, rule=rule), q, sh(exp), sh(got))

    def q_reverse(self, v, kind):
        self._ev('q:get_namespace')
        exp = self.m.reverse(v)
        q = 'get_namespace(%s)' % self.vals.show(v)
        try:
            got = self.ctx.get_namespace(v)
        except Exception as e:
            return self.diverge({'query': 'get_namespace', 'kind': kind, 'rule': 'exception'}, q,
                                repr(exp), '%s: %s' % (type(e).__name__, e))
        if isinstance(exp, Unjudged):
            self._unj('get_namespace:' + exp.reason)
            return False
        if got == exp:
            self.judged += 1
            return False
        rule = ('removed-value-still-mapped' if exp is None
                else 'live-value-lost' if got is None else 'wrong-namespace')
        mech = {'query': 'get_namespace', 'kind': kind, 'rule': rule}
        if self.m.rev_state(v) == 'partial':
            # the value is still listed by its kind query, but a removal of the same name as
            # ANOTHER kind dropped its reverse entry.  Reported (once per history) without
            # ending the history, so that a listed finding does not blind the rest of it.
            mech['cause'] = CROSS_KIND
            if not self.want:
                self.side_hits += 1
                self.judged += 1
                if self.side is None:
                    self.side = {'step': self.step, 'mech': mech, 'query': q,
                                 'expected': repr(exp), 'got': repr(got)}
                return False
        return self.diverge(mech, q, repr(exp), repr(got))

    def q_children(self, ns, none):
        self._ev('q:find_namespaces')
        q = 'find_namespaces(%r, none=%s)' % (ns, none)
        mech = {'query': 'find_namespaces', 'none': none}
        try:
            got = [tuple(x) for x in self.ctx.find_namespaces(ns, none)]
        except Exception as e:
            return self.diverge(dict(mech, rule='exception'), q, 'a list',
                                '%s: %s' % (type(e).__name__, e))
        exp = self.m.children(ns, none)
        if set(got) == set(exp):
            self.judged += 1
            return False
        return self.diverge(dict(mech, rule='content'), q, repr(sorted(exp)), repr(sorted(got)))

    def q_named(self, ns, name, kind, glob):
        self._ev('q:get_namespaces_decls')
        q = 'get_namespaces_decls(%r, %r, %r, glob=%s)' % (ns, name, kind, glob)
        mech = {'query': 'get_namespaces_decls', 'glob': glob}
        try:
            got = list(self.ctx.get_namespaces_decls(ns, name, kind, glob=glob))
        except Exception as e:
            return self.diverge(dict(mech, rule='exception'), q, 'a set',
                                '%s: %s' % (type(e).__name__, e))
        sure, maybe = self.m.named_in_reachable((ns[0],) if glob else ns, name, kind)
        sure = [p for p in sure if p[1] is not None]   # None entries: either reading
        ok = len(got) == len(set((tuple(g[0]), id(g[1])) for g in got))
        ok = ok and all(any(tuple(g[0]) == p[0] and g[1] is p[1] for p in maybe) for g in got)
        ok = ok and all(any(tuple(g[0]) == p[0] and g[1] is p[1] for g in got) for p in sure)
        if ok:
            if len(sure) == len(maybe):
                self.judged += 1
            else:
                self._unj('get_namespaces_decls:None-entry-or-reachability-through-None')
            return False

        def sh(ps):
            return '{' + ', '.join(sorted('(%r, %s)' % (tuple(p[0]), self.vals.show(p[1]))
                                          for p in ps)) + '}'
        return self.diverge(dict(mech, rule='content'), q,
                            sh(sure) if len(sure) == len(maybe)
                            else 'between %s and %s' % (sh(sure), sh(maybe)), sh(got))

    def q_decls_in(self, prefix):
        self._ev('q:get_declarations_in')
        q = 'get_declarations_in(%r)' % (prefix,)
        mech = {'query': 'get_declarations_in'}
        try:
            got = {tuple(k): list(v.items())
                   for k, v in self.ctx.get_declarations_in(prefix).items() if len(v)}
        except Exception as e:
            return self.diverge(dict(mech, rule='exception'), q, 'a mapping',
                                '%s: %s' % (type(e).__name__, e))
        exp = self.m.declarations_in(prefix)
        ok = set(got) == set(exp)
        ok = ok and all(len(got[ns]) == len(exp[ns]) and
                        all(k in exp[ns] and exp[ns][k] is v for k, v in got[ns])
                        for ns in exp)
        if ok:
            self.judged += 1
            return False

        def sh(d):
            return '{' + ', '.join('%r: %s' % (ns, self.show_items(
                d[ns].items() if isinstance(d[ns], dict) else d[ns])) for ns in sorted(d)) + '}'
        return self.diverge(dict(mech, rule='content'), q, sh(exp), sh(got))

    # ---- batteries -------------------------------------------------------
    def battery(self, op, rng):
        """Sampled battery after one step (about 50 comparisons)."""
        kind, t, name = op[1], tuple(op[2]), op[3]
        known = list(self.known_ns)
        r = rng.random()
        if r < 0.55:                       # something below the touched namespace
            below = [n for n in known if len(n) > len(t) and n[:len(t)] == t]
            p2 = rng.choice(below) if below else t + (rng.choice(self.names),)
        elif r < 0.9:
            p2 = rng.choice(known)
        else:
            p2 = rng.choice(known) + (rng.choice(self.names),)
        p2 = p2[:6]
        other = rng.choice(KINDS)
        kinds = [kind, 'decls'] if other == kind else [kind, 'decls', other]
        for k in kinds:
            for none in ((False, True) if k != other or k == kind else (rng.random() < 0.5,)):
                for p in (t, p2):
                    if self.q_range(k, p, 'current', none) or self.q_range(k, p, 'path', none):
                        return
                if self.q_range(k, t, 'glob', none):
                    return
        n2 = rng.choice(self.names)
        for p in (t, p2):
            if self.q_point('get_decl', p, name) or self.q_point('get_lambda', p, name):
                return
        lim = p2[:rng.randint(1, len(p2))]
        if (self.q_outward(p2, name, None) or self.q_outward(p2, name, lim)
                or self.q_outward(p2, n2, None) or self.q_outward(t, name, None)):
            return
        fresh = self.vals.fresh
        if op[0] == 'add' and op[4] is not None:
            if self.q_reverse(self.vals.by_vid[op[4]], kind):
                return
        for _ in range(3):
            if fresh:
                v, vk = fresh[rng.randrange(len(fresh))]
                if vk != 'types' and self.q_reverse(v, vk):
                    return
        for p in (t, p2[:-1] if len(p2) > 1 else p2):
            for none in (False, True):
                if self.q_children(p, none):
                    return
        k2 = 'decls' if kind in DECL_KINDS else rng.choice(('funcs', 'classes'))
        if rng.random() < 0.5:
            k2, kind = kind, k2
        if self.q_named(t, name, kind, True) or self.q_named(t[:rng.randint(1, len(t))], name, k2, False):
            return
        self.q_decls_in(t[:rng.randint(1, len(t))])

    def light_battery(self, op, rng):
        """Touched namespace only (about 20 comparisons); used on a share of
        the steps of long thorough-tier histories."""
        kind, t, name = op[1], tuple(op[2]), op[3]
        none = rng.random() < 0.5
        for k in (kind, 'decls'):
            if (self.q_range(k, t, 'current', none) or self.q_range(k, t, 'path', none)
                    or self.q_range(k, t, 'current', not none)):
                return
        if self.q_range(kind if rng.random() < 0.5 else 'decls', t, 'glob', none):
            return
        if (self.q_point('get_decl', t, name) or self.q_point('get_lambda', t, name)
                or self.q_outward(t, name, None) or self.q_outward(t, name, t[:rng.randint(1, len(t))])):
            return
        if op[0] == 'add' and op[4] is not None:
            if self.q_reverse(self.vals.by_vid[op[4]], kind):
                return
        fresh = self.vals.fresh
        if fresh:
            v, vk = fresh[rng.randrange(len(fresh))]
            if vk != 'types' and self.q_reverse(v, vk):
                return
        if self.q_children(t, none):
            return
        if rng.random() < 0.4:
            if self.q_named(t, name, kind, rng.random() < 0.5):
                return
            self.q_decls_in(t[:rng.randint(1, len(t))])

    def full_battery(self, kinds=None):
        """Every query on every namespace the history mentions (+ unknown ones)."""
        kinds = kinds or self.kinds_full
        known = list(self.known_ns)
        nss = known + [known[-1] + (self.names[0],), (ROOT, 'zz')]
        for k in kinds:
            for none in (False, True):
                if self.q_range(k, (ROOT,), 'glob', none):
                    return
                for p in nss:
                    if self.q_range(k, p, 'current', none) or self.q_range(k, p, 'path', none):
                        return
        for p in nss:
            for n in self.names:
                if (self.q_point('get_decl', p, n) or self.q_point('get_lambda', p, n)
                        or self.q_outward(p, n, None)):
                    return
                for j in range(1, len(p) + 1):
                    if self.q_outward(p, n, p[:j]):
                        return
        for v, vk in self.vals.fresh:
            if vk != 'types' and self.q_reverse(v, vk):
                return
        for p in nss:
            for none in (False, True):
                if self.q_children(p, none):
                    return
            if self.q_decls_in(p):
                return
        for i, p in enumerate(nss):
            for n in self.names:
                for j, k in enumerate(kinds):
                    if i == 0 and self.q_named(p, n, k, True):
                        return
                    if (i == 0 or (i + j) % 3 == 0) and self.q_named(p, n, k, False):
                        return

    # ---- drivers ---------------------------------------------------------
    def run(self, mode='sampled'):
        """mode: 'sampled' (battery per step + full at the end), 'full' (full
        battery after every step), 'last' (full battery after the last step)."""
        ops = self.hist['ops']
        qseed = self.hist.get('qseed', 0)
        density = self.hist.get('density', 1.0)
        for i, op in enumerate(ops):
            self.apply(i, op)
            if self.div:
                break
            if mode == 'full' or (i == len(ops) - 1 and (
                    mode == 'last' or (mode == 'sampled' and self.hist.get('final_full', True)))):
                self.full_battery()
            elif mode == 'sampled':
                rng = random.Random(common.h32(qseed, i))
                if rng.random() < density:
                    self.battery(op, rng)
                else:
                    self.light_battery(op, rng)
            if self.div:
                break
        return self.div

    def shape(self):
        idx = {}
        out = []
        for op in self.hist['ops']:
            out.append((op[0], op[1], len(op[2]) - 1, idx.setdefault(op[3], len(idx))))
        return out

    def answers(self):
        """A few final answers, for the evidence samples."""
        out = {}
        nss = sorted(self.known_ns, key=lambda n: (len(n), n))
        deep = nss[-1]
        for k in ('decls', 'vars', 'funcs'):
            qn = GETTER[k]
            out['%s(%r)' % (qn, deep)] = self.show_items(getattr(self.ctx, qn)(deep).items())
            out['%s(%r, only_current=True)' % (qn, deep)] = self.show_items(
                getattr(self.ctx, qn)(deep, only_current=True).items())
            out['%s(%r, glob=True)' % (qn, deep)] = self.show_items(
                getattr(self.ctx, qn)(deep, glob=True).items())
        for n in self.names[:2]:
            r = self.module_get_decl(self.ctx, deep, n)
            out['get_decl(context, %r, %r)' % (deep, n)] = (
                'None' if r is None else '(%r, %s)' % (r[0], self.vals.show(r[1])))
        for v, vk in self.vals.fresh[:3]:
            out['get_namespace(%s)' % self.vals.show(v)] = repr(self.ctx.get_namespace(v))
        return out


# --------------------------------------------------------------------------
# history generation


def gen_history(seed, index, density=1.0):
    rng = random.Random(common.h32(seed, 'hist', index))
    family = 'shared' if rng.random() < 0.2 else 'unique'
    length = int(round(math.exp(rng.uniform(math.log(5), math.log(400)))))
    policy = rng.choice(['few', 'few', 'few', 'fresh'])
    names = ['a', 'b', 'c', 'd', 'e', 'f'][:rng.choice([2, 2, 3, 3, 4, 6])]
    maxdepth = rng.choice([1, 2, 3, 3, 4, 4])
    pool = [(ROOT,)]
    for _ in range(rng.randint(1, 9)):
        base = rng.choice(pool)
        if len(base) - 1 < maxdepth:
            seg = 'blk' if rng.random() < 0.08 else rng.choice(names)
            if base + (seg,) not in pool:
                pool.append(base + (seg,))
    p_none = rng.choice([0.0, 0.0, 0.0, 0.04, 0.12])
    p_add = rng.choice([0.6, 0.7, 0.7, 0.8])
    kw = [rng.choice([0, 1, 1, 2, 3]) for _ in KINDS]
    if not any(kw):
        kw = [1] * len(KINDS)
    ops, live, used, vids = [], {}, {}, {k: [] for k in KINDS}
    nvid = nfresh = 0
    for _ in range(length):
        ns = rng.choice(pool)
        kind = rng.choices(KINDS, kw)[0]
        if rng.random() < p_add or not live:
            kids = [p[-1] for p in pool if p[:-1] == ns and p[-1] != 'blk']
            if kind in ('funcs', 'classes') and kids and rng.random() < 0.6:
                name = rng.choice(kids)          # makes a child namespace reachable
            elif policy == 'fresh':
                u = used.get(ns)
                if u and rng.random() < 0.35:
                    name = rng.choice(u)         # re-add in the same namespace only
                else:
                    name = 'n%d' % nfresh
                    nfresh += 1
            else:
                name = rng.choice(names)
            used.setdefault(ns, []).append(name)
            if rng.random() < p_none:
                vid = None
            elif family == 'shared' and vids[kind] and rng.random() < 0.3:
                vid = rng.choice(vids[kind])
            else:
                vid = nvid
                nvid += 1
                vids[kind].append(vid)
            ops.append(['add', kind, list(ns), name, vid])
            live[(ns, kind, name)] = True
        else:
            r = rng.random()
            keys = list(live)
            if r < 0.7:
                ns, kind, name = rng.choice(keys)
            elif r < 0.85:                       # same name, possibly another kind
                ns, _, name = rng.choice(keys)
            else:
                name = rng.choice(names)
            ops.append(['rm', kind, list(ns), name])
            live.pop((ns, kind, name), None)
    return {'family': family, 'policy': policy, 'names': names, 'ops': ops,
            'qseed': common.h32(seed, 'q', index), 'seed': seed, 'index': index,
            'density': density}


EXH_NS = {
    'nested': [(ROOT,), (ROOT, 'a')],
    'siblings': [(ROOT, 'a'), (ROOT, 'b')],
    'deep': [(ROOT, 'a'), (ROOT, 'a', 'b')],
}


def exh_alphabet(kinds, nsname):
    out = []
    for o in ('add', 'rm'):
        for k in kinds:
            for ns in EXH_NS[nsname]:
                for n in ('a', 'b'):
                    out.append((o, k, ns, n))
    return out


def exh_history(letters):
    ops = []
    for i, (o, k, ns, n) in enumerate(letters):
        ops.append(['add', k, list(ns), n, i] if o == 'add' else ['rm', k, list(ns), n])
    return {'family': 'exhaustive', 'names': ['a', 'b'], 'ops': ops, 'qseed': 0}


# --------------------------------------------------------------------------
# shrinking and witnesses


def _diverges(hist, mech, mode):
    return Runner(hist, want=(mech.get('query'), mech.get('rule'), mech.get('cause'))).run(mode)


def shrink(hist, div, budget=1500):
    """Greedy one-operation removal keeping a divergence with the same
    (query, rule); the result diverges after its last operation."""
    ops = hist['ops'][:div['step'] + 1]
    cur = dict(hist, ops=ops)
    d = _diverges(cur, div['mech'], 'last')
    if not d:                            # seen only by a sampled query: keep the prefix
        return cur, div
    best = d
    changed = True
    while changed and budget > 0:
        changed = False
        i = len(cur['ops']) - 1
        while i >= 0 and budget > 0:
            cand = dict(cur, ops=cur['ops'][:i] + cur['ops'][i + 1:])
            budget -= 1
            d = _diverges(cand, div['mech'], 'last') if cand['ops'] else None
            if d:
                cur, best, changed = cand, d, True
            i -= 1
    return cur, best


def witness(hist, div):
    small, sdiv = shrink(hist, div)
    return {'history': small, 'divergence': sdiv,
            'text': [op_text(o) for o in small['ops']],
            'original': {'history': hist, 'divergence': div},
            'PYTHONHASHSEED': os.environ.get('PYTHONHASHSEED')}


def report(out, hist, r, d=None):
    d = d or r.div
    w = witness(hist, d)
    sd = w['divergence']
    msg = 'after %s: %s returned %s, the scoped-map model says %s' % (
        '; '.join(w['text'][-6:]), sd['query'], sd['got'], sd['expected'])
    mech = dict(sd['mech'])      # same query and rule as observed; mode/none of the shrunk case
    out.violation(mech, msg, w, shape=r.shape())


# --------------------------------------------------------------------------
# cells


def _merge(out, r, hist):
    out.judged += r.judged
    for k, v in r.unj.items():
        out.unjudged[k] = out.unjudged.get(k, 0) + v
    for k, v in r.ev.items():
        out.events[k] = out.events.get(k, 0) + v
    out.ev('histories')
    out.ev('histories:' + hist.get('family', '?'))
    out.ev('steps', len(hist['ops']))


def cell_random(cell):
    from vf import boot
    boot.light()
    out = common.CellOut()
    t0 = time.process_time()
    for index in range(cell['lo'], cell['hi']):
        hist = gen_history(cell['seed'], index, cell.get('density', 1.0))
        if cell.get('density', 1.0) < 1.0 and index % 4:
            hist['final_full'] = False
        r = Runner(hist)
        r.run('sampled')
        _merge(out, r, hist)
        if r.nontrivial:
            out.shapes.add(common.shape_hash(r.shape()))
            out.ev('histories:nontrivial')
        if r.side:
            out.ev('hits:' + CROSS_KIND, r.side_hits)
            if out.events.get('side-written', 0) < 1:
                out.ev('side-written')
                out.judged -= 1              # report() counts it again
                report(out, hist, r, r.side)
        if r.div:
            if len(out.violations) < 6:
                report(out, hist, r)
            else:
                out.ev('violations-not-written')
        elif (len(hist['ops']) <= 8 and r.nontrivial and cell.get('want_samples')
              and any(o[0] == 'rm' for o in hist['ops'])):
            out.sample({'family': hist['family'], 'history': [op_text(o) for o in hist['ops']],
                        'answers': r.answers()}, cap=2)
    out.info['random_cpu_s'] = round(time.process_time() - t0, 2)
    return out.result()


def cell_exhaustive(cell):
    from vf import boot
    boot.light()
    out = common.CellOut()
    t0 = time.process_time()
    kinds = tuple(cell['kinds'])
    alpha = exh_alphabet(kinds, cell['ns'])
    kf = tuple(kinds) + ('decls',) + tuple(k for k in ('lambdas', 'vars') if k not in kinds)[:1]
    firsts = cell.get('firsts') or list(range(len(alpha)))
    for L in range(1, cell['L'] + 1):
        for f in firsts:
            for rest in itertools.product(alpha, repeat=L - 1):
                letters = (alpha[f],) + rest
                hist = exh_history(letters)
                r = Runner(hist, kinds_full=kf)
                r.run('last')
                _merge(out, r, hist)
                out.ev('exhaustive-histories')
                if r.nontrivial:
                    out.shapes.add(common.shape_hash(r.shape()))
                if r.side:
                    out.ev('hits:' + CROSS_KIND, r.side_hits)
                    if out.events.get('side-written', 0) < 1:
                        out.ev('side-written')
                        out.judged -= 1
                        report(out, hist, r, r.side)
                if r.div:
                    if len(out.violations) < 4:
                        report(out, hist, r)
                    else:
                        out.ev('violations-not-written')
    out.info['exhaustive_cpu_s'] = round(time.process_time() - t0, 2)
    return out.result()


def cell_registration(cell):
    """Registration histories: random declaration TREES (classes with fields and methods, functions with
    parameters, locals, locals under blocks / conditionals, functions declared inside function bodies)
    registered through ast.Program.add_declaration / update_children -- the entry point by which every
    transformation re-registers the declarations it visited -- in random order and repeatedly.  The expected
    scoped map is computed from the tree by this function alone (a declaration lives in the namespace of the
    class / function that lexically encloses it); compared through the public queries of the real Context:
    current-namespace entries per kind (names, values by identity), the union along the path, get_decl,
    the reverse lookup of every declaration, and the program's top-level declaration list."""
    from vf import boot
    boot.light(shim=False)
    from src.ir import ast, context as ctxmod
    from src.ir import kotlin_types as kt
    out = common.CellOut()
    G = ast.GLOBAL_NAMESPACE
    for index in range(cell['lo'], cell['hi']):
        rng = random.Random(common.h32(cell['seed'], 'reg', index))
        counter = [0]
        few = rng.random() < 0.5            # few names: collisions between local and outer declarations

        def name(prefix):
            counter[0] += 1
            if few:
                return '%s%d' % (prefix, rng.randint(0, 3))
            return '%s%d' % (prefix, counter[0])
        expected = {}                      # ns -> kind -> {name: obj}  (last registration wins)
        order = []                         # (ns, kind, name, obj) in registration order of ONE add_declaration

        def reg(ns, kind, n, obj, sink):
            sink.append((ns, kind, n, obj))

        def mk_func(depth, sink_self):
            """-> (FunctionDeclaration, [registrations relative to the function's enclosing namespace])"""
            fname = name('f')
            params = [ast.ParameterDeclaration(name('p'), kt.Integer) for _ in range(rng.randint(0, 2))]
            inner = []       # (relative-ns-suffix, kind, name, obj)
            body_items = []

            def local_items(d):
                items = []
                for _ in range(rng.randint(0, 3)):
                    r = rng.random()
                    if r < 0.45:
                        v = ast.VariableDeclaration(name('v'), ast.IntegerConstant(1, kt.Integer),
                                                    var_type=kt.Integer, inferred_type=kt.Integer)
                        inner.append(((), 'vars', v.name, v))
                        items.append(v)
                    elif r < 0.75 and depth < 2:
                        g, sub = mk_func(depth + 1, None)
                        inner.append(((), 'funcs', g.name, g))
                        for suffix, k2, n2, o2 in sub:          # suffixes of `sub` start with g's own name
                            inner.append((suffix, k2, n2, o2))
                        items.append(g)
                    elif r < 0.9 and d < 2:
                        items.append(ast.Conditional(ast.BooleanConstant('true'),
                                                     ast.Block(local_items(d + 1), is_func_block=False),
                                                     ast.Block(local_items(d + 1), is_func_block=False), kt.Unit))
                    elif d < 2:
                        items.append(ast.Block(local_items(d + 1), is_func_block=False))
                return items
            body_items = local_items(0)
            body = ast.Block(body_items) if rng.random() < 0.9 else ast.IntegerConstant(1, kt.Integer)
            if not isinstance(body, ast.Block):
                inner[:] = []
            fn = ast.FunctionDeclaration(fname, params, kt.Unit, body, ast.FunctionDeclaration.FUNCTION)
            regs = [((fname,), 'vars', p.name, p) for p in params]
            regs += [((fname,) + suffix, k2, n2, o2) for suffix, k2, n2, o2 in inner]
            return fn, regs

        tops = []
        for _ in range(rng.randint(1, 4)):
            r = rng.random()
            if r < 0.5:
                fn, regs = mk_func(0, None)
                tops.append((fn, 'funcs', regs))
            elif r < 0.8:
                fields = [ast.FieldDeclaration(name('x'), kt.Integer) for _ in range(rng.randint(0, 2))]
                meths, regs = [], []
                cname = name('C')
                for _ in range(rng.randint(0, 2)):
                    m, sub = mk_func(1, None)
                    m.func_type = ast.FunctionDeclaration.CLASS_METHOD
                    meths.append(m)
                    regs.append(((cname,), 'funcs', m.name, m))
                    regs += [((cname,) + suffix, k2, n2, o2) for suffix, k2, n2, o2 in sub]
                regs = [((cname,), 'vars', f.name, f) for f in fields] + regs
                cls = ast.ClassDeclaration(cname, [], ast.ClassDeclaration.REGULAR, fields=fields, functions=meths)
                tops.append((cls, 'classes', regs))
            else:
                v = ast.VariableDeclaration(name('g'), ast.IntegerConstant(1, kt.Integer), var_type=kt.Integer,
                                            inferred_type=kt.Integer)
                tops.append((v, 'vars', []))
        # top-level names are unique in a program (the generator draws identifiers without replacement)
        seen = set()
        tops = [t for t in tops if not (t[0].name in seen or seen.add(t[0].name))]
        program = ast.Program(ctxmod.Context(), 'kotlin')
        schedule = list(tops)
        for _ in range(rng.randint(0, 3)):          # re-registration, as update_children does
            schedule.append(rng.choice(tops))
        if rng.random() < 0.3:
            rng.shuffle(schedule)
        via_update = rng.random() < 0.3
        try:
            for d, kind, regs in schedule:
                program.add_declaration(d)
            if via_update:
                # what a DefaultVisitorUpdate does after visiting the program: the same children, re-registered
                program.update_children(list(program.children()))
        except Exception as e:
            out.violation({'rule': 'registration-raised', 'exc': type(e).__name__},
                          'Program registration raised %s: %s' % (type(e).__name__, e), {'index': index})
            continue
        for d, kind, regs in schedule:
            expected.setdefault(G, {}).setdefault(kind, {})[d.name] = d
            # body statements are pushed on a stack and popped: registration order within one function is
            # not the textual order, so only the LAST registration per (namespace, kind, name) of a single
            # declaration is order-dependent; judge a name only when it is registered once per namespace/kind
            for suffix, k2, n2, o2 in regs:
                expected.setdefault(G + suffix, {}).setdefault(k2, {}).setdefault(n2, [])
                lst = expected[G + suffix][k2][n2]
                if not any(o is o2 for o in lst):
                    lst.append(o2)
        out.ev('registration-histories')
        ctx = program.context
        bad = None
        nss = set(expected) | set(ctx._context.keys())
        for ns in sorted(nss, key=lambda x: (len(x), x)):
            for kind in ('funcs', 'vars', 'classes'):
                got = getattr(ctx, GETTER[kind])(ns, only_current=True)
                exp = expected.get(ns, {}).get(kind, {})
                out.ev('q:registration-current')
                if set(got) != set(exp):
                    bad = ('current-namespace names', ns, kind, sorted(got), sorted(exp))
                    break
                for n2, objs in exp.items():
                    cands = objs if isinstance(objs, list) else [objs]
                    if not any(got[n2] is o for o in cands):
                        bad = ('current-namespace value', ns, kind, n2, None)
                        break
                    if len(cands) == 1:
                        out.ev('q:registration-reverse')
                        back = ctx.get_namespace(cands[0])
                        # the same object may legitimately be registered once only; its namespace is ns
                        if back != ns and not any(
                                any(o is cands[0] for o in (v if isinstance(v, list) else [v]))
                                for ns2, kinds in expected.items() if ns2 != ns
                                for v in kinds.get(kind, {}).values()):
                            bad = ('reverse lookup', ns, kind, n2, back)
                            break
                        out.ev('q:registration-get_decl')
                        r = ctxmod.get_decl(ctx, ns, n2)
                        if r is None or r[1] is not got[n2] and kind == 'vars' and n2 not in expected.get(ns, {}).get('funcs', {}):
                            if r is None:
                                bad = ('get_decl finds nothing', ns, kind, n2, None)
                                break
                if bad:
                    break
            if bad:
                break
        if not bad:
            top_got = list(program.get_declarations().keys())
            top_exp = []
            for d, kind, regs in schedule:
                if d.name not in top_exp:
                    top_exp.append(d.name)
            out.ev('q:registration-toplevel')
            if top_got != top_exp:
                bad = ('top-level declarations', G, 'decls', top_got, top_exp)
        if bad:
            what, ns, kind, a, b = bad
            out.violation({'rule': 'registration', 'query': what, 'kind': kind, 'depth': min(len(ns), 4)},
                          'declarations registered through Program.%s: %s of %s / %s is %s, expected %s' % (
                              'update_children' if via_update else 'add_declaration', what, ns, kind, a, b),
                          {'index': index, 'seed': cell['seed'], 'family': 'registration',
                           'program': [str(t[0])[:300] for t in tops][:4]})
        else:
            out.ok(('registration', tuple(sorted((len(ns), k, len(v)) for ns, kinds in expected.items()
                                                  for k, v in kinds.items()))),
                   nontrivial=any(len(ns) >= 3 for ns in expected))
    return out.result()


def cell_any(cell):
    if cell.get('family') == 'registration':
        return cell_registration(cell)
    return cell_exhaustive(cell) if 'kinds' in cell else cell_random(cell)


# --------------------------------------------------------------------------
# main / replay

KIND_PAIRS = list(itertools.combinations(KINDS, 2))
L4_PAIRS = [('funcs', 'vars'), ('funcs', 'classes'), ('vars', 'classes'), ('funcs', 'lambdas')]

SIZES = {
    # tier: (random histories, [(kinds, ns-layout, L, split-by-first-op)])
    'quick': (5000, [(('vars', 'funcs'), 'nested', 4, True)] +
              [(kp, 'nested', 3, False) for kp in KIND_PAIRS if kp != ('funcs', 'vars')] +
              [(('vars', 'funcs'), 'siblings', 3, False), (('funcs', 'classes'), 'deep', 3, False)]),
    'thorough': (100000, [(kp, 'nested', 4, True) for kp in L4_PAIRS] +
                 [(kp, 'nested', 3, False) for kp in KIND_PAIRS if kp not in L4_PAIRS] +
                 [(kp, lay, 3, False) for kp in KIND_PAIRS for lay in ('siblings', 'deep')] +
                 [(('vars', 'funcs'), 'deep', 4, True)]),
}

# about 10 % of what the unchanged tree produces (seed 0); below that the run is INCONCLUSIVE
FLOORS = {
    'quick': {
        'histories': 12000, 'steps': 85000, 'exhaustive-histories': 11000,
        'histories:unique': 390, 'histories:shared': 100, 'histories:nontrivial': 480,
        'q:get_vars': 310000, 'q:get_funcs': 300000, 'q:get_classes': 170000,
        'q:get_types': 160000, 'q:get_lambdas': 340000, 'q:get_declarations': 670000,
        'q:get_decl': 220000, 'q:get_lambda': 220000, 'q:module.get_decl': 600000,
        'q:get_namespace': 180000, 'q:find_namespaces': 270000,
        'q:get_declarations_in': 94000, 'q:get_namespaces_decls': 510000,
        'registration-histories': 700, 'q:registration-current': 8000, 'q:registration-reverse': 2500,
    },
}


def main(prop, tier):
    seed = common.seed_from_env()
    n_random, exh = SIZES['thorough' if tier == 'thorough' else 'quick']
    agg = common.Agg(prop, tier, seed)
    ncell = 100 if tier == 'thorough' else 40
    per = (n_random + ncell - 1) // ncell
    cells = [{'seed': seed, 'lo': i * per, 'hi': min(n_random, (i + 1) * per),
              'want_samples': i < 2,
              # thorough: beyond the first 10 000 histories nine steps in ten get the light
              # battery and only every fourth history gets the closing full battery
              'density': 1.0 if i * per < 10000 else 0.1}
             for i in range(ncell) if i * per < n_random]
    ecells = []
    for kinds, lay, L, split in exh:
        if split:
            for f in range(16):
                ecells.append({'kinds': list(kinds), 'ns': lay, 'L': L, 'firsts': [f]})
        else:
            ecells.append({'kinds': list(kinds), 'ns': lay, 'L': L})
    tag = 'C16-%s-%d' % (tier, os.getpid())
    # one pool; the long exhaustive cells (L = 4) first, short ones last
    nreg = 4000 if tier == 'thorough' else 800
    rcells = [{'family': 'registration', 'seed': seed, 'lo': a, 'hi': min(nreg, a + 200)} for a in range(0, nreg, 200)]
    allc = ([c for c in ecells if c['L'] >= 4] + cells + rcells + [c for c in ecells if c['L'] < 4])
    res = common.run_cells('vf.labs.ctxlab:cell_any', allc, tag, timeout=1500)
    agg.add_cells(res)
    for k, v in FLOORS['quick'].items():
        # thorough produces 5-9 times the quick volume per counter: 7 x the quick floors is
        # 6-17 % of what the unchanged tree produces there
        agg.floor(k, v * 7 if tier == 'thorough' else v)
    common.cleanup(tag)
    n_exh = agg.events.get('exhaustive-histories', 0)
    return agg.finish(
        rule=RULE,
        assumptions=[
            'values are compared by identity; insertion order is judged for only_current queries only',
            'global queries are judged exactly only for names live in one reachable namespace; '
            'otherwise only "the answer is one of the live candidates"',
            'reverse lookup is judged for declarations and lambdas added once and either still '
            'listed by their kind query (expected: their namespace) or explicitly removed (expected: '
            'None); values overwritten in place, values added more than once and TypeParameter '
            'values (hash by name) are not judged',
            'artificial None entries: where the statement admits two readings both are accepted '
            'and the comparison is counted as unjudged',
        ],
        extra={
            'exhaustive_part': '%d histories: every add/remove history of length <= L over 2 names x '
                               '2 namespaces x 2 kinds (L and layouts per tier in SIZES), full query '
                               'battery after the last operation' % n_exh,
            'random_part': '%d seeded histories of length 5-400, sampled battery after every step, '
                           'full battery after the last' % n_random,
        },
        exhaustive=False)


def _print_run(title, hist, mode='full'):
    print('--- %s: %d operations, family=%s' % (title, len(hist['ops']), hist.get('family')))
    r = Runner(hist)
    d = r.run(mode) or r.side
    for i, op in enumerate(hist['ops'][:(d['step'] + 1) if d else len(hist['ops'])]):
        if len(hist['ops']) <= 40 or (d and i >= d['step'] - 12):
            print('  step %3d  %s' % (i, op_text(op)))
    if d:
        print('  FIRST DIVERGENCE at step %d: %s' % (d['step'], d['query']))
        print('     real  : %s' % d['got'])
        print('     model : %s' % d['expected'])
        print('     mech  : %s' % json.dumps(d['mech'], sort_keys=True))
    else:
        print('  no divergence (%d comparisons judged)' % r.judged)
    return d


def replay(prop, path):
    from vf import boot
    boot.light()
    with open(path) as f:
        v = json.load(f)
    w = v.get('witness', v)
    print('replaying %s against %s' % (path, common.REPO))
    d1 = _print_run('shrunk history', w['history'])
    d2 = None
    if 'original' in w:
        o = w['original']['history']
        d2 = _print_run('original history (battery as in the run)', o,
                        'last' if o.get('family') == 'exhaustive' else 'sampled')
        if not d2:
            d2 = _print_run('original history (full battery after every step)', o, 'full')
    return 1 if (d1 or d2) else 0
