"""C14 — synthesiser of compiler outputs with embedded ground truth.

A *batch* is what one compiler invocation of the tool prints for the programs
of one iteration: `<tmp>/src/<package>/<Main.java|program.kt|Main.groovy|
program.scala>` (paths exactly as `hephaestus.gen_program` saves them and as
`check_oracle` later looks them up in the returned map).

The synthesiser only models *formats*.  Nothing here imports the code under
test.  Every diagnostic (error, warning, note) carries a unique token
`Tk<6 hex>` somewhere in its text; the ground truth is

    G : file -> [error segments, in print order]   (after filter patterns)

Format sources
  javac    real javac 17 runs (see compilerlab.cell_real) + reported/bugs.json
  kotlinc  reported/bugs.json (`test.kt:6:7: error: …` + echo + caret; crash
           traces `org.jetbrains.kotlin.…Exception` + `at org.jetbrains…`)
  groovyc  reported/bugs.json (`MultipleCompilationErrorsException: startup
           failed:` + blocks `Main.groovy: 4: msg\n @ line 4, column 5.` +
           sample + caret + blank line + `N errors`); the block layout is the
           one of groovy's SyntaxErrorMessage.write / ErrorCollector.write:
           the two sample lines are printed only when the source line can be
           read (`sample != null`); a diagnostic positioned at line -1 has no
           sample and therefore no blank line after it  -> flag `nosample`
  scalac   Scala 3 (dotty) MessageRendering: header `-- [E007] Type Mismatch
           Error: path:L:C ` padded with `-` up to the page width (80 unless
           $COLUMNS is exported); a title longer than the page gets *no*
           dashes -> flag `hdr-nodash`; body lines behind a `L |` / `  |` gutter

A segment is a dict
  kind   'error' | 'warning' | 'note' | 'fileless' | 'header' | 'summary' | 'crash'
  file   path or None         token  'Tk……' or None
  must   token is inside the part every format's "message" certainly covers
  head   the line that carries the message text / the block header (what a
         line-oriented filter pattern has to delete)
  text   the complete block;   flags  decoy / structure kinds
"""
import json
import os
import re

TOKEN_RE = re.compile(r'Tk[0-9a-f]{6}')
COMPILERS = ['java', 'kotlin', 'groovy', 'scala']
FNAME = {'java': 'Main.java', 'kotlin': 'program.kt', 'groovy': 'Main.groovy',
         'scala': 'program.scala'}
# flags that change the *framing* of a block (used for the mechanism of a violation)
FRAMING = ('nosample', 'hdr-nodash')

_MKDTEMP_CHARS = 'abcdefghijklmnopqrstuvwxyz0123456789_'
_TMP_BASES = ['/tmp'] * 8 + ['/var/tmp', '/var/folders/zz/zyxvpxvq6csfxvn_n0000000000000/T']
_SPECIAL = ['error', 'errors', 'terror', 'java', 'javas', 'javanese', 'groovy', 'warning',
            'warnings', 'note', 'notes', 'at', 'exception', 'exceptions', 'main', 'program',
            'kt', 'internationalization', 'a', 'i', 'counterrevolutionaries', 'tmp', 'src',
            'found', 'required', 'where', 'symbol', 'location', 'line', 'column']


# --------------------------------------------------------------------------
# resources


def load_words(repo):
    p = os.path.join(repo, 'src', 'resources', 'words')
    with open(p) as f:
        ws = [w.strip() for w in f if w.strip()]
    ws = [w for w in ws if re.fullmatch(r'[a-z]+', w)]
    special = [w for w in _SPECIAL if w in set(ws)]
    return ws, special


def load_corpus(repo):
    """Message texts and crash traces mined from reported/bugs.json."""
    out = {'groovy': [], 'kotlin': [], 'java': [], 'traces': {'kotlin': [], 'groovy': []}}
    p = os.path.join(repo, 'reported', 'bugs.json')
    try:
        with open(p) as f:
            bugs = json.load(f)
    except (OSError, ValueError):
        return out
    seen = set()
    for b in bugs:
        em = b.get('errormsg') or []
        comp = b.get('compiler')
        for ln in em:
            ln = ln.rstrip()
            if comp == 'groovyc' and '[Static type checking] - ' in ln:
                m = ln[ln.index('[Static type checking]'):]
                if m not in seen and '\n' not in m:
                    seen.add(m)
                    out['groovy'].append(m)
            elif comp == 'kotlinc':
                mm = re.match(r'^\S+\.kt:\d+:\d+: error: (.+)$', ln)
                if mm and mm.group(1) not in seen:
                    seen.add(mm.group(1))
                    out['kotlin'].append(mm.group(1))
            elif comp == 'javac':
                mm = re.match(r'^\S+\.java:\d+: error: (.+)$', ln)
                if mm and mm.group(1).strip() not in seen:
                    seen.add(mm.group(1).strip())
                    out['java'].append(mm.group(1).strip())
        # compiler-internal traces (not the runtime exceptions of compiled programs)
        frames = [ln for ln in em if re.match(r'^\s+at (org\.jetbrains|org\.codehaus\.groovy|java\.base)', ln)]
        if comp == 'kotlinc' and len(frames) > 5 and any('org.jetbrains' in ln for ln in em[:4]):
            t = [ln for ln in em if ln.strip() not in ('stacktrace', 'text')][:40]
            out['traces']['kotlin'].append('\n'.join(t) + '\n')
        if comp == 'groovyc' and len(frames) > 5 and em and (
                em[0].startswith('>>> a serious error') or 'General error during' in '\n'.join(em[:3])):
            out['traces']['groovy'].append((em[0].startswith('>>>'), '\n'.join(em[:40]) + '\n'))
    return out


_TMPL_IDS = re.compile(r'(?<![\w.])(A|B|C|X|Y|Z|T|L|R|H|N|Foo|Bar|Baz|Main|Test|PCls)\b')


def templatise(msg):
    """Corpus message -> template with one identifier replaced by the token."""
    m = _TMPL_IDS.search(msg)
    if not m:
        return msg.replace('{', '{{').replace('}', '}}'), False
    a, b = m.span()
    esc = lambda s: s.replace('{', '{{').replace('}', '}}')
    return esc(msg[:a]) + '{T}' + esc(msg[b:]), True


# --------------------------------------------------------------------------
# templates: (head template, continuation lines, flags, must)

JAVA_ERR = [
    ('incompatible types: String cannot be converted to {T}', [], [], True),
    ('incompatible types: {T} cannot be converted to int', [], [], True),
    ('incompatible types: {T}<CAP#1> cannot be converted to {T}<? extends Cls3<Float>>',
     ['  where CAP#1 is a fresh type-variable:', '    CAP#1 extends Cls3<? super Float> from capture of ?'],
     ['continuation', 'msg-hash'], True),
    ('type argument ? extends {T}<Integer> is not within bounds of type-variable Y',
     ['  where Y,X are type-variables:', '    Y extends {T}<? super X> declared in class ClsB',
      '    X extends Object declared in class ClsB'], ['continuation'], True),
    ('incompatible types: invalid method reference',
     ['    incompatible types: Number cannot be converted to {T}'], ['continuation', 'ident-msg'], False),
    ('cannot find symbol', ['  symbol:   class {T}', '  location: class Main'],
     ['continuation', 'ident-msg'], False),
    ('method m in class {T} cannot be applied to given types;',
     ['  required: int', '  found:    String',
      '  reason: argument mismatch; String cannot be converted to int'], ['continuation', 'msg-colon'], True),
    ('incompatible types: double cannot be converted to {T}',
     ['  where T is a type-variable:', '    T extends Double declared in class {T}'], ['continuation'], True),
    ('incompatible types: inference variable T has incompatible bounds',
     ['    equality constraints: {T}', '    lower bounds: Integer,String'], ['continuation', 'ident-msg'], False),
    ("bad operand types for binary operator '-'", ['  first type:  {T}', '  second type: int'],
     ['continuation', 'msg-dash', 'ident-msg'], False),
    ('incompatible types: possible lossy conversion from double to int', [], ['ident-msg'], False),
    ('unreported exception {T}; must be caught or declared to be thrown', [], [], True),
    ('variable x12 is already defined in method m3({T})', [], ['msg-digits'], True),
    ('incompatible types: {T}[] cannot be converted to int[]', [], [], True),
    ('incompatible types: B<CAP#1> cannot be converted to B<? super {T}>',
     ['  where T is a type-variable:', '    T extends Object declared in class A',
      '  where CAP#1 is a fresh type-variable:', '    CAP#1 extends Object from capture of ? extends Object'],
     ['continuation', 'msg-hash'], True),
    ('incompatible types: cannot infer type-variable(s) {T}',
     ['    (argument mismatch; String cannot be converted to int)'], ['continuation', 'msg-dash'], True),
]
JAVA_WARN = [
    ('[unchecked] unchecked cast', ['  required: {T}', '  found:    Object']),
    ('[rawtypes] found raw type: {T}', ['  missing type arguments for generic class {T}<X>',
                                        '  where X is a type-variable:', '    X extends Object declared in class {T}']),
    ('[deprecation] m() in {T} has been deprecated', []),
    ('[unchecked] unchecked conversion', ['  required: List<{T}>', '  found:    List']),
]
JAVA_ECHO = [
    ('    {T} v = "s";', []), ('    return x;', []), ('   return x; ', []),
    ('    Function1<? extends Number, ? extends {T}> f2 = Test::foo; // does not work', []),
    ('    String s = "error: " + new {T}();', ['echo-error-word']),
    ('    String p = "Main.java"; {T} q = p;', ['echo-filelike']),
    ('    String p = "{O}"; {T} q = p;', ['echo-otherfile']),
    (' public final void foo(ClsB<? extends Integer, ? extends {T}<Integer>> bar) {{}} ', []),
    ('    int k = a - 1; {T} w = k; // 12: warning: x', ['echo-error-word']),
]
JAVA_NOTES = [
    'Note: {F} uses unchecked or unsafe operations.',
    'Note: Recompile with -Xlint:unchecked for details.',
    'Note: Some input files use unchecked or unsafe operations.',
    'Note: Some messages have been simplified; recompile with -Xdiags:verbose to get full output',
    'Note: {F} uses or overrides a deprecated API.',
    'Note: Recompile with -Xlint:deprecation for details.',
]
JAVA_FILELESS = [
    'warning: [options] bootstrap class path not set in conjunction with -source 8',
    'warning: [options] source value 7 is obsolete and will be removed in a future release',
    'error: warnings found and -Werror specified',
]

KOTLIN_ERR = [
    ('type mismatch: inferred type is {T} but Int was expected', [], [], True),
    ('type mismatch: inferred type is (String) -> String but ({T}!) -> String was expected', [], ['msg-dash'], True),
    ('not enough information to infer type variable {T}', [], [], True),
    ('unresolved reference: {T}', [], ['msg-colon'], True),
    ('expected parameter of type {T}!', [], [], True),
    ('expected 2 parameters of types String, {T}', [], ['msg-digits'], True),
    ('none of the following functions can be called with the arguments supplied: ',
     ['public fun foo(x: {T}): Unit defined in src.{P} in file program.kt',
      'public fun foo(x: Int, y: Int): Unit defined in src.{P} in file program.kt'],
     ['multiline', 'ident-msg', 'msg-colon'], False),
    ('type mismatch: inferred type is Any? but A was expected', [], ['ident-msg'], False),
    ('type mismatch: inferred type is Foo<out Number> but Foo<in {T}> was expected', [], [], True),
    ("type argument is not within its bounds: should be subtype of '{T}'", [], ['msg-colon'], True),
    ('val cannot be reassigned', [], ['ident-msg'], False),
    ("a 'return' expression required in a function with a block body ('{{...}}')", [], ['ident-msg'], False),
    ('overload resolution ambiguity: ',
     ['public final fun m(x: {T}): Unit defined in src.{P}.A', 'public final fun m(x: Any): Unit defined in src.{P}.A'],
     ['multiline', 'ident-msg'], False),
    ('type mismatch: inferred type is kotlin.Int but {T} was expected', [], [], True),
]
KOTLIN_WARN = [
    "variable '{T}' is never used", "parameter 'x' is never used; see {T}",
    'unchecked cast: Any? to {T}', 'unnecessary safe call on a non-null receiver of type {T}',
    "the expression is unused ({T})", "condition 'x != null' is always 'true' for {T}",
]
KOTLIN_ECHO = [
    ('    val v: Int = {T}()', []), ('    A({{ x: String -> x }})', []),
    ('        if (true) Foo<{T}>()', []), ('    run(ret()) // Calls <R> run(block: () -> R): R', []),
    ('    val s = "error: " + {T}()', ['echo-error-word']),
    ('    val p = "program.kt"; val q: {T} = p', ['echo-filelike']),
    ('    val p = "{O}"; val q: {T} = p', ['echo-otherfile']),
    ('        else fun(x: {T}) = x - 1', []),
]
KOTLIN_FILELESS = [
    'warning: language version 1.3 is deprecated and its support will be removed in a future version of Kotlin',
    'warning: some JAR files in the classpath have the Kotlin Runtime library bundled into them. '
    'This may cause difficult to debug problems if there\'s a different version of the Kotlin Runtime library in the classpath. '
    'Consider removing these libraries from the classpath',
    'warning: classpath entry points to a non-existent location: /usr/lib/kotlinc/lib/extra.jar',
]

GROOVY_ERR = [
    ('[Static type checking] - Cannot assign value of type java.lang.Double to variable of type {T}', 'stc', [], True),
    ('[Static type checking] - Cannot call {T}#<init>(java.util.function.Function<java.lang.Short, java.lang.Byte>) '
     'with arguments [groovy.lang.Closure]', 'stc', ['msg-hash'], True),
    ('unable to resolve class {T}', 'stc', [], True),
    ("Unexpected input: '{T}'", 'parse', [], True),
    ('[Static type checking] - The variable [{T}] is undeclared.', 'stc', [], True),
    ('[Static type checking] - Possible loss of precision from int to byte', 'stc', ['ident-msg'], False),
    ("Apparent variable '{T}' was found in a static scope but doesn't refer to a local variable, static field or class. "
     "Possible causes:\nYou attempted to reference a variable in the binding or an instance variable from a static context.\n"
     "You misspelled a classname or statically imported field. Please check the spelling.\n"
     "You attempted to use a method '{T}' but left out brackets in a place not allowed by the grammar.",
     'stc', ['multiline', 'msg-colon'], True),
    # token only on the last line of a (real) multi-line message text
    ("Apparent variable 'x' was found in a static scope but doesn't refer to a local variable, static field or class. "
     "Possible causes:\nYou attempted to reference a variable in the binding or an instance variable from a static context.\n"
     "You misspelled a classname or statically imported field. Please check the spelling.\n"
     "You attempted to use a method '{T}' but left out brackets in a place not allowed by the grammar.",
     'stc', ['multiline', 'msg-colon', 'token-on-late-line'], True),
    ('[Static type checking] - Cannot find matching method {T}#m(int). Please check if the declared type is correct '
     'and if the method exists.', 'stc', ['msg-hash'], True),
    ('[Static type checking] - Incompatible generic argument types. Cannot assign A<? extends java.lang.Object> to: '
     'A<{T}>', 'stc', ['msg-colon', 'msg-javalang'], True),
    ('[Static type checking] - Cannot return value of type java.lang.Object on method returning type T', 'stc',
     ['ident-msg', 'msg-javalang'], False),
]
GROOVY_ECHO = [
    ('    {T} x = new B<>(z).f // does not work', []), ('    x.foo().bar(null)', []),
    ('        Supplier<Integer> z = (true) ? y : {{-> 5}}; {T} q', []),
    ('    def s = "error: " + new {T}()', ['echo-error-word']),
    ('    def p = "Main.groovy"; {T} q = p', ['echo-filelike']),
    ('    def p = "{O}"; {T} q = p', ['echo-otherfile']),
    ('        Function<Long, Double> y = ((true) ? {{Long a -> (Double) a}} : {{Long b -> ({T}) b}})', []),
]

SCALA_ERR = [
    ('Type Mismatch Error', 'E007', ['Found:    (x : {T})', 'Required: Int'], True, []),
    ('Type Mismatch Error', 'E007', ['Found:    (-1 : Int)', 'Required: {T}'], True, ['msg-dash']),
    ('Not Found Error', 'E008', ['value foo is not a member of {T}'], False, []),
    ('Not Found Error', 'E006', ['Not found: type {T}'], True, ['msg-colon']),
    ('Type Mismatch Error', 'E057', ['Type argument {T} does not conform to upper bound Number'], True, []),
    ('Type Error', 'E134', ['None of the overloaded alternatives of method foo in class A with types',
                            ' (x: Int): Unit', ' (x: String): Unit', 'match arguments ((x : {T}))'], False, ['msg-colon']),
    ('Error', None, ['missing argument for parameter x of method foo in class {T}: (x: Int): Unit'], False, ['msg-colon']),
    ('Type Error', 'E050', ['method foo in class {T} does not take parameters'], True, []),
    ('Reference Error', 'E049', ['Reference to {T} is ambiguous,', 'it is both defined in package src.a',
                                 'and imported subsequently by import src.b._'], False, []),
    ('Cyclic Error', 'E046', ['Cyclic reference involving val {T}'], True, []),
    ('Type Mismatch Error', 'E007', ['Found:    Int', 'Required: String'], False, ['ident-msg']),
]
SCALA_WARN = [
    ('Potential Issue Warning', 'E129', ['A pure expression does nothing in statement position; '
                                         'you may be omitting necessary parentheses']),
    ('Warning', None, ['unused value of type {T}']),
    ('Pattern Match Exhaustivity Warning', 'E029', ['match may not be exhaustive.', '', 'It would fail on pattern case: {T}']),
    ('Unchecked Warning', None, ['the type test for {T} cannot be checked at runtime']),
    ('Deprecation Warning', None, ['method m in class {T} is deprecated since 1.0: use n - not m']),
]
SCALA_ECHO = [
    ('  val x: {T} = y', []), ('  val x: {T} = -1', ['msg-dash']), ('    foo(new {T}, 1 - 2)', ['msg-dash']),
    ('  val s: {T} = "error: " + 1', ['echo-error-word']),
    ('  val p: {T} = "program.scala"', ['echo-filelike']),
    ('  val p: {T} = "{O}"', ['echo-otherfile']),
    ('  def f: {T} = (x: Int) => x', []),
]

# ---- crash traces ---------------------------------------------------------

_JAVAC_BUG = ('An exception has occurred in the compiler (17.0.1). Please file a bug against the Java compiler via the '
              'Java bug reporting page (http://bugreport.java.com) after checking the Bug Database (http://bugs.java.com) '
              'for duplicates. Include your program, the following diagnostic, and the parameters passed to the Java '
              'compiler in your report. Thank you.\n')
_JAVAC_FRAMES = ''.join('\tat jdk.compiler/com.sun.tools.javac.%s\n' % f for f in [
    'util.Assert.error(Assert.java:155)', 'util.Assert.check(Assert.java:46)',
    'comp.Attr.visitApply(Attr.java:2345)', 'tree.JCTree$JCMethodInvocation.accept(JCTree.java:1800)',
    'comp.Attr.attribTree(Attr.java:674)', 'comp.Attr.attribClass(Attr.java:5437)',
    'main.JavaCompiler.attribute(JavaCompiler.java:1350)', 'main.JavaCompiler.compile(JavaCompiler.java:947)',
    'main.Main.compile(Main.java:317)', 'main.Main.compile(Main.java:176)', 'Main.compile(Main.java:64)',
    'Main.main(Main.java:50)'])
CRASH = {
    'java': [
        ('javalang-assert', _JAVAC_BUG + 'java.lang.AssertionError: Cannot find class Tk\n' + _JAVAC_FRAMES),
        ('javalang-npe', _JAVAC_BUG + 'java.lang.NullPointerException: Cannot invoke '
         '"com.sun.tools.javac.code.Type.getTag()" because "t" is null\n' + _JAVAC_FRAMES),
        ('javalang-so', '\n\nThe system is out of resources.\nConsult the following stack trace for details.\n'
         'java.lang.StackOverflowError\n' + '\tat jdk.compiler/com.sun.tools.javac.code.Types$15.visitClassType(Types.java:2290)\n' * 12),
        ('javalang-ise', _JAVAC_BUG + 'java.lang.IllegalStateException\n' + _JAVAC_FRAMES),
        # the exception name does not start its line: JVM-level report of the launcher thread, and a
        # wrapped exception (ClientCodeException / Caused by:)
        ('javalang-midline-thread', 'Exception in thread "main" java.lang.StackOverflowError\n'
         + '\tat jdk.compiler/com.sun.tools.javac.code.Types$15.visitClassType(Types.java:2290)\n' * 9),
        ('javalang-midline-wrapped', _JAVAC_BUG + 'com.sun.tools.javac.util.ClientCodeException: '
         'java.lang.NullPointerException\n' + _JAVAC_FRAMES + 'Caused by: java.lang.NullPointerException\n'
         '\tat jdk.compiler/com.sun.tools.javac.comp.Attr.visitApply(Attr.java:2345)\n'),
        # same report, exception class outside java.lang (javac prints ex.printStackTrace after the banner)
        ('nonjavalang', _JAVAC_BUG + 'java.util.NoSuchElementException\n'
         '\tat jdk.compiler/com.sun.tools.javac.util.List$2.next(List.java:432)\n' + _JAVAC_FRAMES),
    ],
    'kotlin': [
        ('kexc', 'ERROR: Exception while analyzing expression at (10,7) in {F}\n'
         'org.jetbrains.kotlin.utils.KotlinExceptionWithAttachments: Exception while analyzing expression at (10,7) in {F}\n'
         + ''.join('\tat org.jetbrains.kotlin.types.expressions.%s\n' % f for f in [
             'ExpressionTypingVisitorDispatcher.logOrThrowException(ExpressionTypingVisitorDispatcher.java:246)',
             'ExpressionTypingVisitorDispatcher.lambda$getTypeInfo$0(ExpressionTypingVisitorDispatcher.java:224)',
             'ExpressionTypingVisitorDispatcher.getTypeInfo(ExpressionTypingVisitorDispatcher.java:164)'])
         + 'Caused by: java.lang.IllegalArgumentException: fromIndex(0) > toIndex(-1)\n'
         '\tat java.base/java.util.AbstractList.subListRangeCheck(AbstractList.java:509)\n'
         '\tat org.jetbrains.kotlin.resolve.calls.tower.NewResolutionOldInferenceKt.x(NewResolutionOldInference.kt:1)\n'),
        ('backend', 'exception: org.jetbrains.kotlin.backend.common.BackendException: Backend Internal error: '
         'Exception during psi2ir\nFile being compiled: (11,9) in {F}\nThe root cause java.lang.NullPointerException '
         'was thrown at: org.jetbrains.kotlin.psi2ir.generators.ReflectionReferencesGenerator.generateCallableReference'
         '(ReflectionReferencesGenerator.kt:70)\nnull: KtCallableReferenceExpression:\nx::m\n'
         + ''.join('  at org.jetbrains.kotlin.%s\n' % f for f in [
             'backend.common.CodegenUtil.reportBackendException(CodegenUtil.kt:239)',
             'psi2ir.generators.DeclarationGenerator.generateMemberDeclaration(DeclarationGenerator.kt:75)',
             'cli.jvm.K2JVMCompiler.doExecute(K2JVMCompiler.kt:169)', 'cli.common.CLITool.exec(CLITool.kt:98)'])),
        ('ise', 'exception: java.lang.IllegalStateException: unexpected element REFERENCE_EXPRESSION\n'
         + ''.join('        at org.jetbrains.kotlin.diagnostics.%s\n' % f for f in [
             'PositioningStrategies$SECONDARY_CONSTRUCTOR_DELEGATION_CALL$1.mark(PositioningStrategies.kt:630)',
             'PositioningStrategy.markDiagnostic(PositioningStrategy.kt:30)',
             'DiagnosticFactoryWithPsiElement.getTextRanges(DiagnosticFactoryWithPsiElement.java:33)'])),
        ('codegen', "exception: org.jetbrains.kotlin.codegen.CompilationException: Back-end (JVM) Internal error: "
         "Couldn't transform method node:\nm ()V:\n   L0\n    LINENUMBER 3 L0\n    NOP\n"
         '\tat org.jetbrains.kotlin.codegen.TransformationMethodVisitor.visitEnd(TransformationMethodVisitor.kt:92)\n'
         '\tat org.jetbrains.kotlin.codegen.FunctionCodegen.endVisit(FunctionCodegen.java:971)\n'),
    ],
    'groovy': [
        # (kind, in-list?, text)
        ('bug-serious', ">>> a serious error occurred: BUG! exception in phase 'instruction selection' in source unit "
         "'{F}' Expected earlier checking to detect generics parameter arity mismatch\nExpected: A<O,S>\n"
         "Supplied: A<F_P extends A<? extends java.lang.Number, ? extends java.lang.Number>>\n>>> stacktrace:\n"
         "BUG! exception in phase 'instruction selection' in source unit '{F}' Expected earlier checking to detect "
         "generics parameter arity mismatch\nExpected: A<O,S>\nSupplied: A<F_P extends A<? extends java.lang.Number, "
         "? extends java.lang.Number>>\n"
         + ''.join('\tat org.codehaus.groovy.%s\n' % f for f in [
             'ast.tools.GenericsUtils.extractPlaceholders(GenericsUtils.java:195)',
             'ast.GenericsType.compareGenericsWithBound(GenericsType.java:368)',
             'transform.stc.StaticTypeCheckingVisitor.visitMethodCallExpression(StaticTypeCheckingVisitor.java:3524)',
             'control.CompilationUnit.compile(CompilationUnit.java:631)',
             'tools.FileSystemCompiler.commandLineCompile(FileSystemCompiler.java:148)'])),
        ('so-serious', '>>> a serious error occurred: null\n>>> stacktrace:\njava.lang.StackOverflowError\n'
         '  at java.base/java.util.stream.MatchOps$1MatchSink.accept(MatchOps.java:90)\n'
         '  at java.base/java.util.LinkedList$LLSpliterator.tryAdvance(LinkedList.java:1253)\n'
         '  at java.base/java.util.stream.ReferencePipeline.forEachWithCancel(ReferencePipeline.java:127)\n' * 4),
        ('so-groovyframes', '>>> a serious error occurred: null\n>>> stacktrace:\njava.lang.StackOverflowError\n'
         + '  at org.codehaus.groovy.ast.ClassNode.redirect(ClassNode.java:195)\n' * 12),
        ('general', 'General error during canonicalization: Index 1 out of bounds for length 1\n\n'
         'java.lang.ArrayIndexOutOfBoundsException: Index 1 out of bounds for length 1\n'
         + ''.join('\tat org.codehaus.groovy.%s\n' % f for f in [
             'ast.GenericsType.compareGenericsWithBound(GenericsType.java:388)',
             'ast.GenericsType.checkGenerics(GenericsType.java:308)',
             'transform.stc.StaticTypeCheckingSupport.isAssignableTo(StaticTypeCheckingSupport.java:479)',
             'control.CompilationUnit.compile(CompilationUnit.java:631)']) + '\n'),
        ('general-cce', "General error during canonicalization: class java.lang.Boolean cannot be cast to class "
         "java.lang.Number (java.lang.Boolean and java.lang.Number are in module java.base of loader 'bootstrap')\n\n"
         "java.lang.ClassCastException: class java.lang.Boolean cannot be cast to class java.lang.Number\n"
         '\tat org.codehaus.groovy.transform.sc.transformers.BinaryExpressionTransformer.optimizeConstantInitialization'
         '(BinaryExpressionTransformer.java:368)\n'
         '\tat org.codehaus.groovy.control.CompilationUnit.compile(CompilationUnit.java:631)\n\n'),
    ],
    'scala': [
        ('assert', 'exception occurred while typechecking {F}\nexception occurred while compiling {F}\n'
         'Exception in thread "main" java.lang.AssertionError: assertion failed: orphan parameter reference: TypeParamRef(T)\n'
         '\tat scala.runtime.Scala3RunTime$.assertFailed(Scala3RunTime.scala:8)\n'
         + ''.join('\tat dotty.tools.dotc.%s\n' % f for f in [
             'core.Types$TypeBounds.<init>(Types.scala:4918)', 'typer.Typer.typedApply(Typer.scala:2713)',
             'typer.TyperPhase.typeCheck$$anonfun$1(TyperPhase.scala:44)', 'Run.compileUnits(Run.scala:249)',
             'Driver.doCompile(Driver.scala:39)', 'Main.main(Main.scala)'])),
        ('matcherror', 'Exception in thread "main" scala.MatchError: TypeRef(NoPrefix,Tk) (of class dotty.tools.dotc.core.Types$CachedTypeRef)\n'
         + ''.join('\tat dotty.tools.dotc.%s\n' % f for f in [
             'typer.Applications.isApplicableType(Applications.scala:1400)', 'typer.Typer.typed(Typer.scala:2890)',
             'Run.compileUnits(Run.scala:249)', 'Driver.process(Driver.scala:199)'])),
        ('unhandled', '  unhandled exception while running typer on {F}\n\n  An unhandled exception was thrown in the '
         'compiler.\n  Please file a crash report here:\n  https://github.com/lampepfl/dotty/issues/new/choose\n\n'
         'java.lang.AssertionError: NoDenotation.owner\n'
         '\tat dotty.tools.dotc.core.SymDenotations$NoDenotation$.owner(SymDenotations.scala:2511)\n'
         '\tat dotty.tools.dotc.typer.Typer.typedUnadapted(Typer.scala:2820)\n'
         '\tat dotty.tools.dotc.Driver.main(Driver.scala:209)\n'),
    ],
}


# --------------------------------------------------------------------------
# generation


class Synth:
    def __init__(self, repo):
        self.words, self.special = load_words(repo)
        self.corpus = load_corpus(repo)
        self.k_err = list(KOTLIN_ERR)
        for m in self.corpus['kotlin']:
            t, must = templatise(m)
            fl = [f for f, c in (('msg-dash', '-'), ('msg-colon', ':')) if c in m]
            self.k_err.append((t, [], fl + ([] if must else ['ident-msg']), must))
        self.g_err = list(GROOVY_ERR)
        for m in self.corpus['groovy']:
            t, must = templatise(m)
            fl = [f for f, c in (('msg-dash', ' - '), ('msg-colon', ': '), ('msg-hash', '#'),
                                 ('msg-javalang', 'java.lang')) if c in m]
            self.g_err.append((t, 'stc', fl + ([] if must else ['ident-msg']), must))
        self.j_err = list(JAVA_ERR)
        self.crash = {c: list(v) for c, v in CRASH.items()}
        for t in self.corpus['traces']['kotlin'][:4]:
            self.crash['kotlin'].append(('corpus', t))
        for serious, t in self.corpus['traces']['groovy'][:6]:
            if 'at org.codehaus.groovy' in t:       # the full trace always has such frames; excerpts may not
                self.crash['groovy'].append(('corpus-serious' if serious else 'corpus-general',
                                             t if serious else t.split('startup failed:\n', 1)[-1] + '\n'))

    # -- helpers
    def token(self, rng, used):
        while True:
            t = 'Tk%06x' % rng.getrandbits(24)
            if t not in used:
                used.add(t)
                return t

    def tmpdir(self, rng):
        return rng.choice(_TMP_BASES) + '/tmp' + ''.join(rng.choice(_MKDTEMP_CHARS) for _ in range(8))

    def packages(self, rng, n):
        out, seen = [], set()
        while len(out) < n:
            w = rng.choice(self.special) if (self.special and rng.random() < 0.08) else rng.choice(self.words)
            if w not in seen:
                seen.add(w)
                out.append(w)
        return out

    # -- one batch ------------------------------------------------------
    def batch(self, rng, compiler, force=None):
        force = force or {}
        r = rng.random()
        nfiles = rng.randint(1, 3) if r < 0.3 else rng.randint(4, 15) if r < 0.7 else rng.randint(16, 60)
        tmp = self.tmpdir(rng)
        inp = tmp + '/src'
        pkgs = self.packages(rng, nfiles)
        files = ['%s/%s/%s' % (inp, p, FNAME[compiler]) for p in pkgs]
        used = set()
        b = {'compiler': compiler, 'tmp': tmp, 'input': inp, 'files': files, 'pkgs': pkgs,
             'pagewidth': (80 if rng.random() < 0.8 else rng.choice([100, 120, 200])), 'patterns': [],
             'pattern_kinds': []}
        perfile = []
        table = {'java': self.j_err, 'kotlin': self.k_err, 'groovy': self.g_err, 'scala': SCALA_ERR}[compiler]
        idents = [i for i, t in enumerate(table) if 'ident-msg' in t[-1 if compiler == 'scala' else 2]]
        # favour identical messages in several files
        ident_t = rng.choice(idents) if (idents and rng.random() < 0.3) else None
        for f, p in zip(files, pkgs):
            ne = rng.choice([0, 0, 0, 1, 1, 2, 3, 4, 5]) if nfiles > 1 else rng.choice([0, 1, 1, 2, 3, 5])
            nw = rng.choice([0, 0, 0, 1, 2]) if compiler in ('java', 'kotlin', 'scala') else 0
            segs = []
            for _ in range(ne):
                segs.append(self.error(rng, b, f, p, used,
                                       ident_t if (ident_t is not None and rng.random() < 0.5) else None))
            for _ in range(nw):
                segs.append(self.warning(rng, b, f, p, used))
            rng.shuffle(segs)
            if segs and segs[0]['kind'] == 'warning' and any(s['kind'] == 'error' for s in segs):
                segs[0]['flags'].append('warn-before-error')
            if nw and not ne:
                for s in segs:
                    s['flags'].append('warn-noerr-file')
            perfile.append(segs)
        # ordering
        mode = rng.choice(['grouped', 'grouped', 'shuffled', 'phased'])
        order = list(range(nfiles))
        rng.shuffle(order)
        body = []
        if mode == 'grouped':
            for i in order:
                body += perfile[i]
        elif mode == 'shuffled':
            for i in order:
                body += perfile[i]
            rng.shuffle(body)
        else:
            late = []
            for i in order:
                k = rng.randint(0, len(perfile[i]))
                body += perfile[i][:k]
                late.append(perfile[i][k:])
            rng.shuffle(late)
            for l in late:
                body += l
        segs = []
        if compiler in ('java', 'kotlin') and rng.random() < 0.15:
            txt = rng.choice(JAVA_FILELESS if compiler == 'java' else KOTLIN_FILELESS)
            segs.append(self.seg('fileless', None, None, txt + '\n', txt, ['fileless']))
        segs += body
        if compiler == 'java' and rng.random() < 0.4:
            for n in rng.sample(JAVA_NOTES, rng.randint(1, 3)):
                txt = n.format(F=rng.choice(files))
                segs.append(self.seg('note', None, None, txt + '\n', txt, ['note']))
        # crash trace
        want_crash = force.get('crash', rng.random() < 0.3)
        if want_crash:
            kind, text = rng.choice(self.crash[compiler])
            if force.get('crash_kind'):
                kind, text = [c for c in self.crash[compiler] if c[0] == force['crash_kind']][0]
            text = text.replace('{F}', rng.choice(files))
            pos = rng.choice(['begin', 'middle', 'end'])
            cs = self.seg('crash', None, None, text, '', ['crash:' + kind])
            cs['crash_kind'], cs['pos'] = kind, pos
            if compiler == 'groovy' and kind in ('so-serious',):
                segs = []                      # groovyc aborts: nothing else is printed
                cs['pos'] = 'alone'
            elif compiler == 'groovy' and 'serious' in kind and rng.random() < 0.6:
                segs = []
                cs['pos'] = 'alone'
            i = {'begin': 0, 'middle': len(segs) // 2, 'end': len(segs)}[pos] if segs else 0
            segs.insert(i, cs)
        b['segments'] = segs
        # filter patterns
        if force.get('filter', rng.random() < 0.5):
            self.add_filters(rng, b)
        self.annotate(b)
        return b

    def seg(self, kind, file, token, text, head, flags, must=False, tmpl=None):
        return {'kind': kind, 'file': file, 'token': token, 'text': text, 'head': head,
                'flags': list(flags), 'must': must, 'tmpl': tmpl}

    def echo(self, rng, table, b, f, tok):
        e, fl = rng.choice(table)
        others = [x for x in b['files'] if x != f]
        if '{O}' in e and not others:
            e, fl = table[0]
        return e.format(T=tok, O=rng.choice(others) if others else ''), list(fl)

    # -- error blocks ----------------------------------------------------
    def error(self, rng, b, f, pkg, used, tmpl=None):
        c = b['compiler']
        tok = self.token(rng, used)
        L, C = rng.randint(1, 400), rng.randint(1, 70)
        if c == 'java':
            table = self.j_err
            ti = tmpl if tmpl is not None else rng.randrange(len(table))
            head, cont, fl, must = table[ti]
            e, efl = self.echo(rng, JAVA_ECHO, b, f, tok)
            h = '%s:%d: error: %s' % (f, L, head.format(T=tok))
            txt = h + '\n' + e + '\n' + ' ' * C + '^\n' + ''.join(x.format(T=tok) + '\n' for x in cont)
            return self.seg('error', f, tok, txt, h, fl + efl, must, ti)
        if c == 'kotlin':
            table = self.k_err
            ti = tmpl if tmpl is not None else rng.randrange(len(table))
            head, cont, fl, must = table[ti]
            e, efl = self.echo(rng, KOTLIN_ECHO, b, f, tok)
            h = '%s:%d:%d: error: %s' % (f, L, C, head.format(T=tok, P=pkg))
            txt = h + '\n' + ''.join(x.format(T=tok, P=pkg) + '\n' for x in cont)
            if rng.random() < 0.9:              # kotlinc omits the echo for some positions (corpus: KT-47508)
                txt += e + '\n' + (' ' * C + '^\n' if rng.random() < 0.9 else '')
            return self.seg('error', f, tok, txt, h, fl + efl, must, ti)
        if c == 'groovy':
            table = self.g_err
            ti = tmpl if tmpl is not None else rng.randrange(len(table))
            head, style, fl, must = table[ti]
            fl = list(fl)
            nosample = must and rng.random() < 0.03
            if nosample:
                L = C = -1
                fl.append('nosample')
            msg = head.format(T=tok)
            h = '%s: %d: %s' % (f, L, msg.split('\n')[0])
            at = ' @ line %d, column %d.' % (L, C)
            txt = '%s: %d: %s' % (f, L, msg) + ('\n' + at if style == 'stc' else at) + '\n'
            if not nosample:
                e, efl = self.echo(rng, GROOVY_ECHO, b, f, tok)
                fl += efl
                e = e.strip()
                if C > 40 and len(e) > 45:
                    e, pad = e[5:45], 30
                    fl.append('widecol')
                else:
                    pad = C - 1
                txt += '   ' + ' ' * 4 + e + '\n   ' + ' ' * pad + '^\n\n'
            return self.seg('error', f, tok, txt, h, fl, must, ti)
        # scala
        ti = tmpl if tmpl is not None else rng.randrange(len(SCALA_ERR))
        kind, code, lines, _, fl = SCALA_ERR[ti]
        fl = list(fl)
        e, efl = self.echo(rng, SCALA_ECHO, b, f, tok)
        fl += efl
        title = '%s%s: %s:%d:%d' % ('[%s] ' % code if code else '', kind, f, L, C)
        h = '-- ' + title + ' ' + '-' * max(b['pagewidth'] - len(title) - 4, 0)
        if not h.endswith('-'):
            fl.append('hdr-nodash')
        g0 = '%d |' % L
        g = ' ' * len(str(L)) + ' |'
        txt = h + '\n' + g0 + e + '\n' + g + ' ' * C + '^' * rng.randint(1, 4) + '\n'
        txt += ''.join(g + ' ' * C + x.format(T=tok) + '\n' for x in lines)
        if code and rng.random() < 0.6:
            txt += g + '\n' + g + ' longer explanation available when compiling with `-explain`\n'
            fl.append('explain-hint')
        return self.seg('error', f, tok, txt, h, fl, True, ti)

    def warning(self, rng, b, f, pkg, used):
        c = b['compiler']
        tok = self.token(rng, used)
        L, C = rng.randint(1, 400), rng.randint(1, 70)
        if c == 'java':
            head, cont = rng.choice(JAVA_WARN)
            e, efl = self.echo(rng, JAVA_ECHO, b, f, tok)
            h = '%s:%d: warning: %s' % (f, L, head.format(T=tok))
            txt = h + '\n' + e + '\n' + ' ' * C + '^\n' + ''.join(x.format(T=tok) + '\n' for x in cont)
            return self.seg('warning', f, tok, txt, h, ['warning'] + efl)
        if c == 'kotlin':
            e, efl = self.echo(rng, KOTLIN_ECHO, b, f, tok)
            h = '%s:%d:%d: warning: %s' % (f, L, C, rng.choice(KOTLIN_WARN).format(T=tok))
            return self.seg('warning', f, tok, h + '\n' + e + '\n' + ' ' * C + '^\n', h, ['warning'] + efl)
        kind, code, lines = rng.choice(SCALA_WARN)
        e, efl = self.echo(rng, SCALA_ECHO, b, f, tok)
        title = '%s%s: %s:%d:%d' % ('[%s] ' % code if code else '', kind, f, L, C)
        h = '-- ' + title + ' ' + '-' * max(b['pagewidth'] - len(title) - 4, 0)
        g0, g = '%d |' % L, ' ' * len(str(L)) + ' |'
        txt = h + '\n' + g0 + e + '\n' + g + ' ' * C + '^\n' + ''.join(g + ' ' * C + x.format(T=tok) + '\n' for x in lines)
        return self.seg('warning', f, tok, txt, h, ['warning'] + efl)

    # -- filters ---------------------------------------------------------
    def add_filters(self, rng, b):
        """Whole-line patterns `.*<literal>.*` built from message heads that occur
        in the batch (plus one that matches nothing and sometimes the empty
        pattern a blank line of the pattern file yields)."""
        errs = [s for s in b['segments'] if s['kind'] == 'error']
        pats, kinds = [], []
        rng.shuffle(errs)
        for s in errs[:rng.randint(0, 3)]:
            h = s['head']
            if b['compiler'] == 'scala':
                # the header carries kind and code, not the message text
                m = re.search(r'\[E\d+\]|(?:[A-Z][A-Za-z ]+ )?Error:', h)
                frag = m.group(0)
                kinds.append('header-kind')
            else:
                body = h.split(': ', 2)[-1] if b['compiler'] == 'groovy' else h.split('error: ', 1)[-1]
                body = TOKEN_RE.split(body)
                body = max(body, key=len)
                if len(body) < 8:
                    continue
                a = rng.randint(0, max(0, len(body) // 3))
                frag = body[a:a + rng.randint(8, 40)]
                kinds.append('header-msg')
            pats.append('.*' + re.escape(frag) + '.*')
        if rng.random() < 0.5:
            pats.append('.*' + re.escape('this text occurs in no diagnostic') + '.*')
            kinds.append('no-match')
        if rng.random() < 0.2:
            pats.append('')
            kinds.append('empty')
        if rng.random() < 0.3 and b['compiler'] != 'scala':
            pats.append(r'.*Tk[0-9a-f]{5}0\b.*')          # a regex (not a literal): 1/16 of the tokens
            kinds.append('regex')
        b['patterns'], b['pattern_kinds'] = pats, kinds

    # -- derived flags ---------------------------------------------------
    def annotate(self, b):
        segs = b['segments']
        prev = None
        for s in segs:
            s['ctx'] = []
            if prev is not None and s['kind'] == 'error':
                if 'nosample' in prev['flags']:        # the only framing defect that reaches the next block
                    s['ctx'].append('after-nosample')
                if prev['kind'] == 'crash':
                    s['ctx'].append('after-crash')
            prev = s
        errs = [s for s in segs if s['kind'] == 'error']
        if errs:
            last = errs[-1]
            if segs[-1] is last:
                last['ctx'].append('last')
        for s in errs:
            p = s['file'].split('/')[-2]
            if p in _SPECIAL and 'pkg-special' not in s['flags']:
                s['flags'].append('pkg-special')


# --------------------------------------------------------------------------
# rendering and ground truth (pure functions of a batch dict)


def is_filtered(b, s):
    return s['kind'] == 'error' and any(p and re.search(p, s['head']) for p in b.get('patterns', []))


def render(b):
    c = b['compiler']
    segs = b['segments']
    ne = sum(1 for s in segs if s['kind'] == 'error')
    nw = sum(1 for s in segs if s['kind'] == 'warning')
    body = ''.join(s['text'] for s in segs)
    plural = lambda n, w: '%d %s%s' % (n, w, '' if n == 1 else 's')
    crash = [s for s in segs if s['kind'] == 'crash']
    if c == 'java':
        return body + (plural(ne, 'error') + '\n' if ne else '') + (plural(nw, 'warning') + '\n' if nw else '')
    if c == 'kotlin':
        return body
    if c == 'groovy':
        inlist = ne + sum(1 for s in crash if 'general' in s['crash_kind'])
        if not inlist:
            return body
        return ('org.codehaus.groovy.control.MultipleCompilationErrorsException: startup failed:\n'
                + body + plural(inlist, 'error') + '\n')
    return body + (plural(nw, 'warning') + ' found\n' if nw else '') + (plural(ne, 'error') + ' found\n' if ne else '')


def truth(b):
    """-> (G, filtered_tokens, crash_expected, owner) with
    G: {file: [segment]} for non-filtered errors in print order,
    owner: {token: segment} for every token of the batch."""
    G, filt, owner = {}, set(), {}
    for s in b['segments']:
        if s.get('token'):
            owner[s['token']] = s
        if s['kind'] != 'error':
            continue
        if is_filtered(b, s):
            filt.add(s['token'])
            continue
        G.setdefault(s['file'], []).append(s)
    crash = any(s['kind'] == 'crash' for s in b['segments'])
    return G, filt, crash, owner


def bucket(n, edges):
    for lo, hi, name in edges:
        if lo <= n <= hi:
            return name
    return 'more'


def shape(b):
    segs = b['segments']
    errs = [s for s in segs if s['kind'] == 'error']
    flags = set()
    for s in segs:
        flags.update(f for f in s['flags'] if not f.startswith('crash:'))
        flags.update(s.get('ctx', []))
    used = {s['file'] for s in segs if s.get('file')}
    if len(used) < len(b['files']):
        flags.add('clean-files')
    # some file's errors separated by another file's error
    seq = [s['file'] for s in errs]
    closed, cur = set(), None
    for f in seq:
        if f != cur:
            if f in closed:
                flags.add('interleaved')
            if cur is not None:
                closed.add(cur)
            cur = f
    crash = [s for s in segs if s['kind'] == 'crash']
    return {
        'compiler': b['compiler'],
        'files': bucket(len(b['files']), [(1, 1, '1'), (2, 5, '2-5'), (6, 20, '6-20'), (21, 60, '21-60')]),
        'errors': bucket(len(errs), [(0, 0, '0'), (1, 5, '1-5'), (6, 30, '6-30'), (31, 10 ** 6, '31+')]),
        'decoys': sorted(flags),
        'crash': (crash[0]['crash_kind'] + '@' + crash[0]['pos']) if crash else None,
        'filter': sorted(set(b.get('pattern_kinds', []))) if b.get('patterns') else None,
    }, bool(errs)
