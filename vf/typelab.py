"""Synthetic class tables for C06-C10.  One *spec* builds both the real IR
objects (with the real constructors of the code under test) and the reference
class table (terms.Table), so the oracle never reads supertypes the IR computed.

spec = {'lang': L, 'classes': [ {name, params:[(name, variance, bound-term|None)],
                                 super: term|None, kind: regular|abstract|interface} ]}
Terms are vf.terms terms; inside a class, its parameters appear as
('v', name, variance, bound).
"""
import random

from vf import terms
from vf.terms import INV, COV, CON

BUILTIN_KEYS = ['any', 'number', 'integer', 'short', 'long', 'byte', 'float', 'double',
                'char', 'string', 'boolean']


class Lab:
    def __init__(self, spec):
        from src.ir import types as tp, ast, BUILTIN_FACTORIES
        self.tp, self.ast = tp, ast
        self.spec = spec
        self.lang = spec['lang']
        self.f = BUILTIN_FACTORIES[self.lang]
        f = self.f
        self.bobj = {
            'any': f.get_any_type(), 'number': f.get_number_type(), 'integer': f.get_integer_type(),
            'short': f.get_short_type(), 'long': f.get_long_type(), 'byte': f.get_byte_type(),
            'float': f.get_float_type(), 'double': f.get_double_type(), 'char': f.get_char_type(),
            'string': f.get_string_type(), 'boolean': f.get_boolean_type(),
        }
        self.bterm = {k: terms.to_term(v) for k, v in self.bobj.items()}
        self.by_class = {}
        for k, v in self.bobj.items():
            self.by_class.setdefault(type(v).__name__, v)
        self.T = terms.Table(top=type(f.get_any_type()).__name__)
        for b in f.get_non_nothing_types():
            self.T.scan(b)
        self.decls = {}        # name -> ClassDeclaration
        self.ctype = {}        # name -> TypeConstructor | SimpleClassifier
        self.tparams = {}      # class name -> {param name: TypeParameter}
        for c in spec['classes']:
            self._build_class(c)

    # ------------------------------------------------------------------
    def variance(self, v):
        tp = self.tp
        return {INV: tp.Invariant, COV: tp.Covariant, CON: tp.Contravariant}[v]

    def _build_class(self, c):
        tp, ast = self.tp, self.ast
        name = c['name']
        env = {}
        params = []
        tparams_terms = []
        for (pn, pv, pb) in c.get('params', []):
            bound = None if pb is None else self.real(pb, env)
            p = tp.TypeParameter(pn, self.variance(pv), bound)
            env[pn] = p
            params.append(p)
            tparams_terms.append((pn, pv, pb))
        self.tparams[name] = env
        supers = []
        sterms = []
        if c.get('super') is not None:
            st = self.real(c['super'], env)
            supers.append(ast.SuperClassInstantiation(st, []))
            sterms.append(c['super'])
        kind = {'regular': ast.ClassDeclaration.REGULAR, 'interface': ast.ClassDeclaration.INTERFACE,
                'abstract': ast.ClassDeclaration.ABSTRACT}[c.get('kind', 'regular')]
        decl = ast.ClassDeclaration(name, supers, kind, fields=[], functions=[],
                                    is_final=False, type_parameters=params)
        self.decls[name] = decl
        self.ctype[name] = decl.get_type()
        self.T.classes[name] = (tparams_terms, sterms)
        self.T.kinds[name] = c.get('kind', 'regular')

    def real(self, x, env=None):
        """term -> fresh IR type built with the real constructors."""
        tp = self.tp
        k = x[0]
        if k == 'b':
            return type(self.by_class[x[1]])() if x[1] in self.by_class else self._builtin_by_class(x[1])
        if k == 'bot':
            return self.f.get_nothing() if hasattr(self.f, 'get_nothing') and self.lang == 'kotlin' else tp.Nothing
        if k == 'c':
            n = x[1]
            if '@' in n:
                return self._builtin_ctor(n).new([self.real(a, env) for a in x[2]])
            ct = self.decls[n].get_type()
            if not x[2]:
                return ct
            return ct.new([self.real(a, env) for a in x[2]])
        if k == 'w':
            return tp.WildCardType(None if x[2] is None else self.real(x[2], env), self.variance(x[1]))
        if k == 'v':
            if env is not None and x[1] in env:
                return env[x[1]]
            return tp.TypeParameter(x[1], self.variance(x[2]), None if x[3] is None else self.real(x[3], env))
        if k == 'tc':
            return self.decls[x[1]].get_type()
        raise ValueError(x)

    def _builtin_by_class(self, clsname):
        for b in self.f.get_non_nothing_types():
            if type(b).__name__ == clsname:
                return b
        raise KeyError(clsname)

    def _builtin_ctor(self, n):
        name, cls = n.split('@')
        if name.startswith('Function'):
            return self.f.get_function_type(int(name[len('Function'):]))
        if name == 'Array':
            a = self.f.get_array_type()
            if type(a).__name__ == cls:
                return a
        for b in self.f.get_non_nothing_types():
            tc = getattr(b, 't_constructor', b)
            if terms.cname(tc) == n:
                return tc
        raise KeyError(n)

    # ------------------------------------------------------------------
    def ground_terms(self, depth, builtins=('number', 'integer', 'string', 'double'), with_top=False,
                     projections='domain', cap=None, rng=None):
        """All type terms up to nesting `depth` over this table.
        projections: 'none' | 'domain' (bounded, consistent with declared
        variance) | 'all' (also the star projection).  Projections that
        conflict with the declared variance (`in` on a covariant parameter) are
        ill-formed types in every target language and are never built."""
        base = [self.bterm[b] for b in builtins]
        if with_top:
            base.append(self.bterm['any'])
        for c in self.spec['classes']:
            if not c.get('params'):
                base.append(('c', c['name'], ()))
        level = list(dict.fromkeys(base))
        allt = list(level)
        for _ in range(depth):
            new = []
            for c in self.spec['classes']:
                ps = c.get('params') or []
                if not ps:
                    continue
                choices = []
                for (pn, pv, pb) in ps:
                    opts = []
                    for a in allt:
                        opts.append(a)
                        if projections != 'none':
                            if pv in (INV, COV):
                                opts.append(('w', COV, a))
                            if pv in (INV, CON):
                                opts.append(('w', CON, a))
                    if projections == 'all':
                        opts.append(('w', INV, None))
                    choices.append(opts)
                combos = _product_capped(choices, cap, rng)
                for args in combos:
                    new.append(('c', c['name'], tuple(args)))
            allt = list(dict.fromkeys(allt + new))
            if cap and len(allt) > cap * 4:
                break
        return allt

    def within_bounds(self, x):
        """Is every type argument of x (recursively) within its parameter's
        declared bound according to the reference relation?"""
        if x[0] == 'c' and x[2]:
            params = self.T.classes[x[1]][0]
            m = {p[0]: a for p, a in zip(params, x[2])}
            for (pn, pv, pb), a in zip(params, x[2]):
                if not self.within_bounds(a if a[0] != 'w' else (a[2] or ('bot',))):
                    return False
                if pb is None:
                    continue
                b = terms.subst(pb, m)
                arg = a
                if a[0] == 'w':
                    if a[2] is None:
                        continue
                    # `out B` and `in B` are only well-formed when B itself is
                    # within the declared upper bound (javac / kotlinc reject
                    # a lower bound that is not below the parameter's bound)
                    arg = a[2]
                if terms.refsub3(arg, b, self.T) is not True:
                    return False
        return True


def _product_capped(choices, cap, rng):
    import itertools
    total = 1
    for c in choices:
        total *= max(1, len(c))
    if not cap or total <= cap:
        return list(itertools.product(*choices))
    rng = rng or random.Random(0)
    out = set()
    tries = 0
    while len(out) < cap and tries < cap * 4:
        tries += 1
        out.add(tuple(rng.choice(c) for c in choices))
    return sorted(out)


# --------------------------------------------------------------------------
# spec families


def V(name, variance=INV, bound=None):
    return ('v', name, variance, bound)


def C(name, *args):
    return ('c', name, tuple(args))


def _positions_ok(x, polarity, pvar, T):
    """Do the variables of `x` occur only at positions their declared
    variance permits?  polarity: +1 / -1 / 0 (invariant)."""
    k = x[0]
    if k == 'v':
        v = pvar.get(x[1], INV)
        if v == COV:
            return polarity == 1
        if v == CON:
            return polarity == -1
        return True
    if k == 'w':
        if x[2] is None:
            return True
        pol = polarity if x[1] == COV else (-polarity if x[1] == CON else 0)
        return _positions_ok(x[2], pol, pvar, T)
    if k == 'c':
        if not x[2]:
            return True
        params = T[x[1]]
        for a, p in zip(x[2], params):
            pol = polarity if p[1] == COV else (-polarity if p[1] == CON else 0)
            if a[0] == 'w':
                if not _positions_ok(a, pol if p[1] != INV else polarity, pvar, T):
                    return False
            elif not _positions_ok(a, pol, pvar, T):
                return False
        return True
    return True


def variance_safe(spec):
    """Declaration-site variance is only legal when every variant parameter
    occurs in the supertype at a position of the same polarity (Kotlin/Scala
    reject anything else), and no variant parameter occurs in a bound."""
    T = {c['name']: c.get('params') or [] for c in spec['classes']}
    for c in spec['classes']:
        pvar = {p[0]: p[1] for p in c.get('params') or []}
        if c.get('super') is not None and not _positions_ok(c['super'], 1, pvar, T):
            return False
        for p in c.get('params') or []:
            if p[2] is not None:
                fv = terms.free_vars(p[2])
                if any(pvar.get(n, INV) != INV for n in fv):
                    return False
    return True


def small_family(lang):
    return [s for s in _small_family(lang) if variance_safe(s)]


def _small_family(lang):
    """A finite family of small tables, enumerated completely:
       A<p> with variance v1 and bound b1; B (generic <q> with variance v2, or
       plain) extending A<arg>; D plain extending B<...> or nothing; plus E
       plain, unrelated."""
    lab0 = Lab({'lang': lang, 'classes': []})
    num, integer, string = lab0.bterm['number'], lab0.bterm['integer'], lab0.bterm['string']
    specs = []
    for v1 in (INV, COV, CON):
        for b1 in (None, num):
            A = {'name': 'A', 'params': [('T', v1, b1)], 'super': None}
            a_args = [integer, num] if b1 is not None else [integer, num, string]
            # B plain extends A<arg>
            for arg in a_args:
                B = {'name': 'B', 'params': [], 'super': C('A', arg)}
                for dsup in (None, C('B')):
                    D = {'name': 'D', 'params': [], 'super': dsup}
                    specs.append({'lang': lang, 'classes': [A, B, D, {'name': 'E', 'params': [], 'super': None}]})
            # B generic extends A<own param> / A<fixed>
            for v2 in (INV, COV, CON):
                q = V('Q', v2, b1)
                for sup in (C('A', q), C('A', integer)):
                    B = {'name': 'B', 'params': [('Q', v2, b1)], 'super': sup}
                    for dsup in (None, C('B', integer)):
                        D = {'name': 'D', 'params': [], 'super': dsup}
                        specs.append({'lang': lang, 'classes': [A, B, D]})
    return specs


def random_spec(lang, rng, nclasses=None, max_params=3):
    """Seeded random larger table (<= 12 classes, <= 3 parameters)."""
    lab0 = Lab({'lang': lang, 'classes': []})
    bt = [lab0.bterm[k] for k in ('number', 'integer', 'string', 'double', 'long', 'boolean')]
    classes = []
    n = nclasses or rng.randint(4, 12)
    names = ['K%d' % i for i in range(n)]

    def some_type(avail_params, depth=0):
        pool = list(bt)
        pool += [C(c['name']) for c in classes if not c['params']]
        pool += list(avail_params)
        gen = [c for c in classes if c['params']]
        if gen and depth < 2 and rng.random() < 0.45:
            c = rng.choice(gen)
            args = []
            m = {}
            for (pn, pv, pb) in c['params']:
                a = None
                for _ in range(6):
                    cand = some_type(avail_params, depth + 1)
                    if pb is None:
                        a = cand
                        break
                    b = terms.subst(pb, m)
                    T = _table_of(lang, classes)
                    if cand[0] != 'v' and terms.refsub3(cand, b, T) is True:
                        a = cand
                        break
                if a is None:
                    if pb is not None and not terms.free_vars(terms.subst(pb, m)):
                        a = terms.subst(pb, m)
                    else:
                        return rng.choice(pool)
                m[pn] = a
                args.append(a)
            return C(c['name'], *args)
        return rng.choice(pool)

    for i, name in enumerate(names):
        params = []
        if rng.random() < 0.55:
            for j in range(rng.randint(1, max_params)):
                pv = rng.choice((INV, INV, COV, CON))
                pb = None
                r = rng.random()
                if r < 0.25:
                    pb = rng.choice(bt[:2])
                elif r < 0.4 and params:
                    pb = V(*params[rng.randrange(len(params))][:2] + (None,)) if False else None
                    prev = rng.choice(params)
                    pb = V(prev[0], prev[1], prev[2])
                elif r < 0.55 and classes:
                    cand = some_type([V(p[0], p[1], p[2]) for p in params])
                    if cand[0] != 'v':
                        pb = cand
                params.append(('P%d_%d' % (i, j), pv, pb))
        sup = None
        if classes and rng.random() < 0.7:
            own = [V(p[0], p[1], p[2]) for p in params]
            for _ in range(5):
                cand = some_type(own)
                if cand[0] == 'c' and cand[1] in [c['name'] for c in classes]:
                    sup = cand
                    break
        kind = rng.choice(('regular', 'regular', 'abstract', 'interface'))
        cand = {'name': name, 'params': params, 'super': sup, 'kind': kind}
        if not variance_safe({'classes': classes + [cand]}):
            cand['super'] = None
            if not variance_safe({'classes': classes + [cand]}):
                names = {p[0] for p in params}
                cand['params'] = [(p[0], INV, None if p[2] is None else _flatten_variance(p[2], names))
                                  for p in params]
        classes.append(cand)
    return {'lang': lang, 'classes': classes}


def _flatten_variance(x, names):
    k = x[0]
    if k == 'v':
        return ('v', x[1], INV if x[1] in names else x[2],
                None if x[3] is None else _flatten_variance(x[3], names))
    if k == 'c':
        return ('c', x[1], tuple(_flatten_variance(a, names) for a in x[2]))
    if k == 'w':
        return ('w', x[1], None if x[2] is None else _flatten_variance(x[2], names))
    return x


def _table_of(lang, classes):
    T = terms.Table()
    lab0 = _LAB0.get(lang)
    if lab0 is None:
        lab0 = _LAB0[lang] = Lab({'lang': lang, 'classes': []})
    T.builtins = lab0.T.builtins
    T.top = lab0.T.top
    T.classes = dict(lab0.T.classes)
    for c in classes:
        T.classes[c['name']] = (list(c['params']), [c['super']] if c['super'] is not None else [])
    return T


_LAB0 = {}
