"""Scripted compiler stand-in (javac / kotlinc / groovyc-l / scalac).

One implementation, two ways in:
  * the executable launchers in this directory (whole sessions: the tool under
    test finds them first on PATH), configured through the environment
      VF_FAKECC_CFG  inline JSON (seed, probabilities, session_dir, ...)
      VF_FAKECC_LOG  path of the decision log (JSON lines, O_APPEND)
  * `compile_(lang, argv, cfg)` called in process by the harness stub that
    replaces `hephaestus.run_command`.

The stand-in knows nothing about hephaestus internals.  It finds the source
files named by its argv (files, shell-expanded globs, directories), decides a
verdict for each, prints diagnostics in the format of the impersonated
compiler and appends what it did to the decision log: this log is the ground
truth the driver model is applied to.

Verdict of a file, in order:
  1. a marker `vf:{"v":"E"|"K", "crash":0|1}` inside the file (the harness
     wrote the file and scripted its verdict);
  2. otherwise a seeded hash of (cfg.seed, sha1(content)) compared with the
     probability that belongs to the file's role.  The role (expected to
     compile / expected to be rejected) and the program id are read off what
     the tool staged under <session_dir>/tmp/<pid>/<name> (same content).

Every diagnostic carries a unique alphanumeric token so that the judge can
recognise "the compiler's message for this file" in whatever the tool reports.
"""
import glob
import hashlib
import json
import os
import re
import sys
import time

EXT = {'java': '.java', 'kotlin': '.kt', 'groovy': '.groovy', 'scala': '.scala'}
BANNER = {
    'java': 'javac 17.0.0-vf',
    'kotlin': 'info: kotlinc-jvm 1.9.0-vf (JRE 17.0.0)',
    'groovy': 'Groovy compiler version 4.0.0-vf',
    'scala': 'Scala compiler version 3.3.0-vf -- Copyright 2002-2023, LAMP/EPFL',
}
MARK = re.compile(r'vf:(\{[^\n]*\})')


def h32(*parts):
    s = '\x1f'.join(str(p) for p in parts).encode()
    return int.from_bytes(hashlib.sha256(s).digest()[:4], 'big')


def sha(text):
    if isinstance(text, str):
        text = text.encode('utf-8', 'replace')
    return hashlib.sha1(text).hexdigest()


def find_sources(args, ext):
    """Source files a compiler would pick up from its command line."""
    files = []
    for a in args:
        if a.startswith('-'):
            continue
        if any(c in a for c in '*?['):
            cand = sorted(glob.glob(a))
        else:
            cand = [a]
        for c in cand:
            if os.path.isdir(c):
                for root, dirs, names in os.walk(c):
                    dirs.sort()
                    for n in sorted(names):
                        if n.endswith(ext):
                            files.append(os.path.join(root, n))
            elif os.path.isfile(c) and c.endswith(ext):
                files.append(c)
    seen, out = set(), []
    for f in files:
        if f not in seen:
            seen.add(f)
            out.append(f)
    return out


def staged(session_dir, ext):
    """{pid: {name: sha}} of what the tool staged under <session>/tmp."""
    out = {}
    tmp = os.path.join(session_dir, 'tmp')
    try:
        pids = os.listdir(tmp)
    except OSError:
        return out
    for p in pids:
        d = os.path.join(tmp, p)
        try:
            names = os.listdir(d)
        except OSError:
            continue
        for n in names:
            if n.endswith(ext):
                try:
                    with open(os.path.join(d, n), 'rb') as f:
                        out.setdefault(p, {})[n] = sha(f.read())
                except OSError:
                    pass
    return out


# --------------------------------------------------------------------------
# output formats

_SRC = {
    'java': ('        Integer x = foo();', '                    ^'),
    'kotlin': ('    val x: Int = foo()', '                 ^'),
    'groovy': ('       int x = foo()', '       ^'),
    'scala': ('  val x: Int = foo()', '               ^^^^^'),
}


def _diag(lang, path, line, col, tok):
    echo, caret = _SRC[lang]
    if lang == 'java':
        return ('%s:%d: error: incompatible types: Str%s cannot be converted to Integer\n%s\n%s\n'
                % (path, line, tok, echo, caret))
    if lang == 'kotlin':
        return ('%s:%d:%d: error: type mismatch: inferred type is Str%s but Int was expected\n%s\n%s\n'
                % (path, line, col, tok, echo, caret))
    if lang == 'groovy':
        return ('%s: %d: [Static type checking] - Cannot assign value of type Str%s to variable of type int\n'
                ' @ line %d, column %d.\n%s\n%s\n\n' % (path, line, tok, line, col, echo, caret))
    if lang == 'scala':
        return ('-- [E007] Type Mismatch Error: %s:%d:%d %s\n%d |%s\n  |%s\n'
                '  |               Found:    Str%s\n  |               Required: Int\n'
                % (path, line, col, '-' * 20, line, echo, caret, tok))
    raise ValueError(lang)


def _warning(lang, path, line, col):
    if lang == 'kotlin':
        return "%s:%d:%d: warning: variable 'x' is never used\n    val x = 1\n        ^\n" % (path, line, col)
    if lang == 'scala':
        return '-- Warning: %s:%d:%d %s\n%d |  val x = 1\n  |  ^\n  |  unused value\n' % (
            path, line, col, '-' * 20, line)
    return ''


def _crash(lang, tok, path):
    if lang == 'java':
        return ('An exception has occurred in the compiler (17.0.0-vf). Please file a bug against the '
                'Java compiler via the Java bug reporting page.\n'
                'java.lang.AssertionError: crash%s\n'
                '\tat jdk.compiler/com.sun.tools.javac.util.Assert.error(Assert.java:155)\n'
                '\tat jdk.compiler/com.sun.tools.javac.comp.Attr.visitApply(Attr.java:2389)\n'
                '\tat jdk.compiler/com.sun.tools.javac.main.Main.compile(Main.java:317)\n' % tok)
    if lang == 'kotlin':
        return ('exception: org.jetbrains.kotlin.codegen.CompilationException: Back-end (JVM) Internal '
                'error: crash%s\nFile being compiled: %s\n'
                '\tat org.jetbrains.kotlin.codegen.ExpressionCodegen.genQualified(ExpressionCodegen.java:332)\n'
                '\tat org.jetbrains.kotlin.cli.jvm.K2JVMCompiler.doExecute(K2JVMCompiler.kt:59)\n'
                % (tok, path))
    if lang == 'groovy':
        if int(tok[-1], 16) % 3 == 0:
            # the second crash shape the tool recognises: a bare stack overflow
            return ('java.lang.StackOverflowError crash%s\n'
                    '\tat org.apache.groovy.util.Maps.of(Maps.java:1)\n'
                    '\tat org.apache.groovy.util.Maps.of(Maps.java:1)\n' % tok)
        return (">>> a serious error occurred: BUG! exception in phase 'instruction selection' in "
                "source unit '%s' crash%s\n>>> stacktrace:\n"
                "BUG! exception in phase 'instruction selection' in source unit '%s' crash%s\n"
                '\tat org.codehaus.groovy.control.CompilationUnit$ISourceUnitOperation.doPhaseOperation'
                '(CompilationUnit.java:905)\n'
                '\tat org.codehaus.groovy.control.CompilationUnit.compile(CompilationUnit.java:627)\n'
                % (path, tok, path, tok))
    if lang == 'scala':
        return ('exception occurred while compiling %s\n'
                'java.lang.AssertionError: assertion failed: crash%s while compiling %s\n'
                '\tat dotty.tools.dotc.typer.Typer.typedUnadapted(Typer.scala:2991)\n'
                '\tat dotty.tools.dotc.Run.compileUnits(Run.scala:262)\n' % (path, tok, path))
    raise ValueError(lang)


def render(lang, files, crash_tok, seed=0):
    """files: [{'path', 'verdict', 'tokens'}] in compile order -> output text."""
    out = []
    nerr = 0
    if lang == 'groovy' and any(f['verdict'] == 'E' for f in files):
        out.append('org.codehaus.groovy.control.MultipleCompilationErrorsException: startup failed:\n')
    bare_overflow = (lang == 'groovy' and crash_tok is not None
                     and int(crash_tok[-1], 16) % 3 == 0)
    for i, f in enumerate(files):
        if bare_overflow:
            break           # that crash shape comes without any diagnostics
        if f['verdict'] == 'E':
            for j, tok in enumerate(f['tokens']):
                out.append(_diag(lang, f['path'], 3 + (h32(seed, tok) % 40), 1 + (h32(tok) % 30), tok))
                nerr += 1
        elif h32(seed, 'warn', f['path']) % 4 == 0:
            out.append(_warning(lang, f['path'], 2, 5))
        if crash_tok is not None and i == (h32(seed, crash_tok) % len(files)):
            # the compiler dies in the middle of the batch
            out.append(_crash(lang, crash_tok, f['path']))
            return ''.join(out)
    if crash_tok is not None:
        out.append(_crash(lang, crash_tok, files[0]['path'] if files else '<none>'))
        return ''.join(out)
    if nerr:
        if lang == 'java':
            out.append('%d error%s\n' % (nerr, '' if nerr == 1 else 's'))
        elif lang == 'groovy':
            out.append('%d error%s\n' % (nerr, '' if nerr == 1 else 's'))
        elif lang == 'scala':
            out.append('%d error%s found\n' % (nerr, '' if nerr == 1 else 's'))
    return ''.join(out)


# --------------------------------------------------------------------------
# decisions


def compile_(lang, argv, cfg):
    """-> (exit_code, output_text, record).  Never raises on odd input."""
    ext = EXT[lang]
    seed = cfg.get('seed', 0)
    rec = {'lang': lang, 'argv': list(argv), 'cwd': os.getcwd(), 't0': time.time(),
           'pid_os': os.getpid()}
    if '-version' in argv or '--version' in argv:
        rec.update(kind='version', t1=time.time())
        return 0, BANNER[lang] + '\n', rec
    paths = find_sources(argv, ext)
    files = []
    stage = {}
    by_sha = {}
    if cfg.get('session_dir'):
        stage = staged(cfg['session_dir'], ext)
        for p, names in stage.items():
            for n, s in names.items():
                by_sha.setdefault(s, []).append((p, n))
    crash = False
    for p in paths:
        try:
            with open(p, 'rb') as f:
                raw = f.read()
        except OSError:
            continue
        s = sha(raw)
        text = raw.decode('utf-8', 'replace')
        ent = {'path': p, 'sha': s, 'pid': None, 'staged_as': None, 'role': None}
        owners = by_sha.get(s, [])
        if len(owners) == 1:
            ent['pid'], ent['staged_as'] = owners[0]
            if ent['staged_as'] == cfg.get('correct_name'):
                ent['role'] = 'correct'
            elif ent['staged_as'] == cfg.get('incorrect_name'):
                ent['role'] = 'incorrect'
        m = MARK.search(text)
        if m:
            try:
                d = json.loads(m.group(1))
            except ValueError:
                d = {}
            ent['verdict'] = 'E' if d.get('v') == 'E' else 'K'
            ent['how'] = 'marker'
            if ent['pid'] is None and d.get('pid') is not None:
                ent['pid'] = str(d['pid'])
                ent['role'] = d.get('role')
            if d.get('crash'):
                crash = True
        else:
            u = h32(seed, 'verdict', s) / 2.0 ** 32
            if ent['role'] == 'incorrect':
                ent['verdict'] = 'K' if u < cfg.get('p_accept_incorrect', 0.1) else 'E'
            else:
                ent['verdict'] = 'E' if u < cfg.get('p_reject_correct', 0.1) else 'K'
            ent['how'] = 'hash'
        files.append(ent)
    if not cfg.get('both_ok', True):
        # workload knob: never reject the well-typed AND accept the ill-typed
        # variant of the same program in this session
        rejected = {f['pid'] for f in files
                    if f['pid'] is not None and f['role'] == 'correct' and f['verdict'] == 'E'}
        for f in files:
            if f['role'] == 'incorrect' and f['pid'] in rejected and f['verdict'] == 'K':
                f['verdict'] = 'E'
                f['how'] += '+paired'
    key = ','.join(sorted(f['sha'] for f in files))
    if not crash and files and cfg.get('p_crash', 0) > 0:
        crash = h32(seed, 'crash', key) / 2.0 ** 32 < cfg['p_crash']
    if cfg.get('force_crash'):
        crash = True
    crash_tok = ('%08x' % h32(seed, 'crashtok', key)) if crash else None
    for f in files:
        n = 1 + h32(seed, 'ndiag', f['sha']) % 2
        f['tokens'] = (['d%08x' % h32(seed, 'tok', f['sha'], j) for j in range(n)]
                       if f['verdict'] == 'E' else [])
    text = render(lang, files, crash_tok, seed)
    sleep_ms = 0
    if cfg.get('max_sleep_ms', 0) > 0:
        sleep_ms = h32(seed, 'sleep', key) % (int(cfg['max_sleep_ms']) + 1)
        time.sleep(sleep_ms / 1000.0)
    rec.update(kind='compile', files=files, crash=crash_tok, sleep_ms=sleep_ms,
               staged=stage, t1=time.time(), nbytes=len(text))
    rc = 1 if (crash_tok or any(f['verdict'] == 'E' for f in files)) else 0
    return rc, text, rec


def log(path, rec):
    if not path:
        return
    data = (json.dumps(rec, default=str) + '\n').encode()
    fd = os.open(path, os.O_WRONLY | os.O_APPEND | os.O_CREAT, 0o644)
    try:
        os.write(fd, data)
    finally:
        os.close(fd)


def main(lang):
    try:
        cfg = json.loads(os.environ.get('VF_FAKECC_CFG', '{}') or '{}')
    except ValueError:
        cfg = {}
    rc, text, rec = compile_(lang, sys.argv[1:], cfg)
    try:
        log(os.environ.get('VF_FAKECC_LOG'), rec)
    except OSError:
        pass
    sys.stdout.write(text)
    sys.stdout.flush()
    return rc
