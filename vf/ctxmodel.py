"""Reference model of property C16: "the symbol table behaves like a scoped map".

Written from the property statement, not from src/ir/context.py.  Values are
opaque (compared by identity by the caller); a namespace is a tuple of strings.

Reading of the statement (DESIGN C16, Python-dict semantics):

* per namespace there is one ordered map per entity kind (types, funcs,
  lambdas, vars, classes) and one ordered map `decls` of "declarations"
  (variables, functions and classes share it: a *name* resolves to the
  declaration most recently added under it);
* adding under an existing name replaces the value and keeps the position,
  adding under a new name appends;
* removing NAME as KIND deletes NAME from that namespace's KIND map and - for
  variables/functions/classes - from its `decls` map; nothing else changes;
* current-namespace query  = that namespace's map, in insertion order;
* enclosing-scope query    = union along the path root..ns, outer first, inner
  entries overriding outer ones;
* global query             = union over every namespace reachable from the
  root by repeatedly appending the name of a function or class declared in the
  namespace reached so far;
* reverse lookup           = the namespace a value was added in, until the
  value is removed.

Where the statement leaves room for two readings the model exposes BOTH and
the caller refuses to judge when they differ:

* artificial `None` entries: with none=False a path union may drop them
  before or after shadowing (`path` returns both answers);
* reachability may or may not pass through a function/class NAME whose entry
  is an artificial `None` (`reachable(..., through_none)`);
* a global query with the same name live in several reachable namespaces has
  no single answer in one dict (`glob_candidates` returns all candidates);
* reverse lookup of a value that was overwritten in place (replaced, never the
  target of a removal) or that was added more than once (`reverse` returns
  Unjudged with the reason).

A value whose `decls` slot was deleted by removing the same NAME as another
kind (add_func(ns, 'x', f); remove_var(ns, 'x')) is still an entry of its own
kind map and was not removed: its reverse lookup is still its namespace
(`rev_state` == 'partial' lets the caller name that situation).
"""

KINDS = ('types', 'funcs', 'lambdas', 'vars', 'classes')
DECL_KINDS = ('funcs', 'vars', 'classes')
MAPS = KINDS + ('decls',)

_MISSING = object()


class Unjudged:
    def __init__(self, reason):
        self.reason = reason

    def __repr__(self):
        return 'Unjudged(%s)' % self.reason


class ScopedMap:
    def __init__(self):
        self.tab = {}     # namespace -> {map name -> {name -> value}}
        self.rev = {}     # id(value) -> [namespace, state, number of adds]
        self._keep = []   # keeps values alive: id() stays unique
        self._reach = {}  # (start, through_none) -> reachable list, per state

    # ---- updates ---------------------------------------------------------
    def _mark(self, value, state):
        r = self.rev.get(id(value))
        if r is None or r[1] == 'removed':
            return
        if state == 'partial' and r[1] != 'live':
            return
        r[1] = state

    def add(self, kind, ns, name, value):
        self._reach.clear()
        maps = self.tab.get(ns)
        if maps is None:
            maps = self.tab[ns] = {m: {} for m in MAPS}
        old = maps[kind].get(name)
        if old is not None and old is not value:
            self._mark(old, 'overwritten')
        maps[kind][name] = value
        if kind in DECL_KINDS:
            maps['decls'][name] = value
        if value is not None:
            r = self.rev.get(id(value))
            if r is None:
                self.rev[id(value)] = [ns, 'live', 1]
                self._keep.append(value)
            else:
                r[2] += 1

    def remove(self, kind, ns, name):
        self._reach.clear()
        maps = self.tab.get(ns)
        if maps is None:
            return
        cur = maps[kind].pop(name, _MISSING)
        if cur is not _MISSING and cur is not None:
            self._mark(cur, 'removed')
        if kind in DECL_KINDS:
            d = maps['decls'].pop(name, _MISSING)
            if d is not _MISSING and d is not None and d is not cur:
                self._mark(d, 'partial')

    # ---- point lookups ---------------------------------------------------
    def entries(self, ns, kind):
        return self.tab.get(ns, {}).get(kind, {})

    def lookup(self, ns, kind, name):
        """Value under `name` in exactly this namespace, or None."""
        return self.entries(ns, kind).get(name)

    def lookup_outward(self, ns, name, limit=None):
        """Innermost enclosing namespace (not above `limit`) that has a
        declaration under `name` -> (namespace, declaration) or None."""
        low = 1 if limit is None else len(limit)
        if limit is not None and ns[:low] != tuple(limit):
            return None
        for k in range(len(ns), low - 1, -1):
            v = self.entries(ns[:k], 'decls').get(name)
            if v is not None:
                return ns[:k], v
        return None

    def reverse(self, value):
        r = self.rev.get(id(value))
        if r is None:
            return None
        if r[2] > 1:
            return Unjudged('value-added-more-than-once')
        if r[1] in ('live', 'partial'):    # 'partial': still an entry of its kind map,
            return r[0]                    # nobody removed it (see rev_state)
        if r[1] == 'removed':
            return None
        return Unjudged('value-overwritten-in-place')

    def rev_state(self, value):
        """'live' | 'partial' | 'removed' | 'overwritten' | None.  'partial' = the
        value is still in its own kind map but its `decls` slot was deleted by
        removing the same NAME as another kind (remove_var on a function name)."""
        r = self.rev.get(id(value))
        return r and r[1]

    # ---- range queries ---------------------------------------------------
    def current(self, ns, kind, none):
        """[(name, value)] of this namespace in insertion order."""
        return [(k, v) for k, v in self.entries(ns, kind).items()
                if none or v is not None]

    def path(self, ns, kind, none):
        """Union along the path, outer first, inner overriding.  Returns
        (answer, other) where `other` is the answer under the second reading
        of none=False (artificial entries do not shadow) or None if equal."""
        a, b = {}, {}
        for k in range(1, len(ns) + 1):
            for name, v in self.entries(ns[:k], kind).items():
                a[name] = v
                if v is not None:
                    b[name] = v
        if none:
            return a, None
        a = {k: v for k, v in a.items() if v is not None}
        if len(a) == len(b) and all(b.get(k) is v for k, v in a.items()):
            return a, None
        return a, b

    def children(self, ns, none):
        """Namespaces one step below `ns` through declared functions/classes."""
        out = []
        for kind in ('funcs', 'classes'):
            for name, v in self.entries(ns, kind).items():
                if (none or v is not None) and ns + (name,) not in out:
                    out.append(ns + (name,))
        return out

    def reachable(self, start, through_none):
        key = (start, through_none)
        if key in self._reach:
            return self._reach[key]
        seen, order, todo = set(), [], [start]
        while todo:
            ns = todo.pop()
            if ns in seen:
                continue
            seen.add(ns)
            order.append(ns)
            if ns in self.tab:
                todo.extend(self.children(ns, through_none))
        self._reach[key] = order
        return order

    def glob_candidates(self, root, kind):
        """name -> (candidates over namespaces reachable through any entry,
        candidates over namespaces reachable through non-None entries)."""
        out = {}
        strict = set(self.reachable(root, False))
        for ns in self.reachable(root, True):
            for name, v in self.entries(ns, kind).items():
                c = out.setdefault(name, ([], []))
                c[0].append(v)
                if ns in strict:
                    c[1].append(v)
        return out

    def named_in_reachable(self, start, name, kind):
        """(pairs surely expected, pairs possibly expected): (ns+(name,), value)
        for every reachable namespace holding `name` in its `kind` map."""
        sure, maybe = [], []
        strict = set(self.reachable(start, False))
        for ns in self.reachable(start, True):
            m = self.entries(ns, kind)
            if name in m:
                maybe.append((ns + (name,), m[name]))
                if ns in strict:
                    sure.append((ns + (name,), m[name]))
        return sure, maybe

    def declarations_in(self, prefix):
        return {ns: maps['decls'] for ns, maps in self.tab.items()
                if ns[:len(prefix)] == tuple(prefix) and maps['decls']}

    def namespaces(self):
        return list(self.tab)
