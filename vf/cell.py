"""Entry point of a workload cell:  python -m vf.cell <module>:<func> <in.json> <out.json>"""
import importlib
import json
import os
import sys
import faulthandler


def main():
    faulthandler.enable()
    target, cin, cout = sys.argv[1:4]
    with open(cin) as f:
        cell = json.load(f)
    sys.argv = [sys.argv[0]]          # the cell decides what hephaestus sees
    modname, fn = target.split(':')
    mod = importlib.import_module(modname)
    res = getattr(mod, fn)(cell)
    tmp = cout + '.tmp'
    with open(tmp, 'w') as f:
        json.dump(res, f, default=str)
    os.replace(tmp, cout)


if __name__ == '__main__':
    main()
