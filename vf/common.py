"""Shared machinery of every check: cell fan-out, aggregation, known findings,
verdict discipline, evidence and replay files.

A *cell* is one unit of workload executed in a fresh subprocess
(`python -m vf.cell <module>:<function> <cell.json> <out.json>`).  It returns a
JSON dict with the standard keys

  events      {counter: int}             what the monitors observed
  judged      int                        items that received ok/violation
  unjudged    {reason: int}              items the oracle refused to judge
  shapes      [str]                      hashes of distinct NON-TRIVIAL shapes
  samples     [json]                     a few cases written out
  violations  [{"mech": {...}, "msg": str, "witness": json}]
  info        {...}                      free-form, merged shallowly

The parent merges cells, matches violations against known_findings.json,
writes evidence/<id>.json and evidence/replay/<id>/<n>.json and decides the
exit code:  0 held / 1 VIOLATION / 2 INCONCLUSIVE.
"""
import hashlib
import json
import os
import re
import shutil
import subprocess
import sys
import time
from concurrent.futures import ThreadPoolExecutor

VERIF = os.path.dirname(os.path.dirname(os.path.abspath(__file__)))
PY = os.environ.get('VERIF_PYTHON', '/venv/bin/python')
REPO = os.environ.get('VERIF_REPO', '/repo')
WORK = os.path.join(VERIF, '.work')
# runs against a scratch copy (VERIF_REPO=<copy>, tools/seeded.py) must not overwrite the evidence of /repo
EVID = os.environ.get('VERIF_EVIDENCE') or os.path.join(VERIF, 'evidence')
NCPU = int(os.environ.get('VERIF_JOBS', '0')) or min(16, os.cpu_count() or 4)


def seed_from_env():
    try:
        return int(os.environ.get('VERIF_SEED', '0'))
    except ValueError:
        return 0


def h32(*parts):
    s = '\x1f'.join(str(p) for p in parts).encode()
    return int.from_bytes(hashlib.sha256(s).digest()[:4], 'big')


def shape_hash(obj):
    if not isinstance(obj, str):
        obj = json.dumps(obj, sort_keys=True, default=str)
    return hashlib.sha1(obj.encode()).hexdigest()[:16]


def scratch(name):
    d = os.path.join(WORK, name)
    shutil.rmtree(d, ignore_errors=True)
    os.makedirs(d, exist_ok=True)
    return d


# --------------------------------------------------------------------------
# cell fan-out


def run_cells(target, cells, tag, timeout=900, jobs=None, env=None):
    """Run `target` ("vf.labs.x:func") on every cell dict, each in a fresh
    subprocess.  Returns a list of (cell, result-or-None, status) where status
    is 'ok' | 'timeout' | 'crash:<rc>'.
    """
    d = scratch(tag)
    jobs = jobs or NCPU
    base_env = dict(os.environ)
    base_env.setdefault('PYTHONHASHSEED', '0')
    base_env['PYTHONPATH'] = VERIF + os.pathsep + base_env.get('PYTHONPATH', '')
    base_env['VERIF_REPO'] = REPO
    base_env['PYTHONDONTWRITEBYTECODE'] = '1'
    if env:
        base_env.update(env)

    def one(ic):
        i, cell = ic
        cin = os.path.join(d, 'cell%05d.in.json' % i)
        cout = os.path.join(d, 'cell%05d.out.json' % i)
        clog = os.path.join(d, 'cell%05d.log' % i)
        cell = dict(cell)
        cell['_scratch'] = os.path.join(d, 'cell%05d.d' % i)
        with open(cin, 'w') as f:
            json.dump(cell, f)
        with open(clog, 'w') as lf:
            try:
                p = subprocess.run([PY, '-m', 'vf.cell', target, cin, cout],
                                   stdout=lf, stderr=subprocess.STDOUT,
                                   timeout=timeout, env=base_env, cwd=VERIF)
                rc = p.returncode
            except subprocess.TimeoutExpired:
                return cell, None, 'timeout'
        if rc != 0 or not os.path.exists(cout):
            tail = ''
            try:
                with open(clog) as f:
                    tail = f.read()[-2000:]
            except OSError:
                pass
            return cell, {'log': tail}, 'crash:%s' % rc
        with open(cout) as f:
            return cell, json.load(f), 'ok'

    with ThreadPoolExecutor(max_workers=jobs) as ex:
        out = list(ex.map(one, enumerate(cells)))
    return out


def cleanup(tag):
    shutil.rmtree(os.path.join(WORK, tag), ignore_errors=True)
    try:
        os.rmdir(WORK)
    except OSError:
        pass


# --------------------------------------------------------------------------
# known findings


def load_known():
    out = []
    paths = [os.path.join(VERIF, 'known_findings.json')]
    dd = os.path.join(VERIF, 'known_findings.d')
    if os.path.isdir(dd):
        paths += [os.path.join(dd, n) for n in sorted(os.listdir(dd)) if n.endswith('.json')]
    for p in paths:
        if os.path.exists(p):
            with open(p) as f:
                out.extend(json.load(f).get('findings', []))
    return out


def _match_value(pat, val):
    if isinstance(pat, list):
        return any(_match_value(p, val) for p in pat)
    if isinstance(pat, str) and pat.startswith('re:'):
        return val is not None and re.search(pat[3:], str(val)) is not None
    return pat == val


def match_known(prop, mech, known):
    """Return the known-finding entry (status == 'known') whose `match` is a
    sub-record of mech, else None.  'fixed' entries suppress nothing."""
    for k in known:
        if k.get('property') != prop or k.get('status') != 'known':
            continue
        m = k.get('match', {})
        if m and all(_match_value(v, mech.get(key)) for key, v in m.items()):
            return k
    return None


# --------------------------------------------------------------------------
# aggregation and verdict


class Agg:
    def __init__(self, prop, tier, seed=None):
        self.prop = prop
        self.tier = tier
        self.seed = seed_from_env() if seed is None else seed
        self.t0 = time.time()
        self.events = {}
        self.judged = 0
        self.unjudged = {}
        self.shapes = set()
        self.samples = []
        self.violations = []
        self.info = {}
        self.cells = 0
        self.cell_status = {}
        self.inconclusive = []
        self.max_samples = 8

    # merging -------------------------------------------------------------
    def add(self, res):
        for k, v in res.get('events', {}).items():
            self.events[k] = self.events.get(k, 0) + v
        self.judged += res.get('judged', 0)
        for k, v in res.get('unjudged', {}).items():
            self.unjudged[k] = self.unjudged.get(k, 0) + v
        self.shapes.update(res.get('shapes', []))
        for s in res.get('samples', []):
            if len(self.samples) < self.max_samples:
                self.samples.append(s)
        self.violations.extend(res.get('violations', []))
        for k, v in res.get('info', {}).items():
            if isinstance(v, (int, float)) and isinstance(self.info.get(k, 0), (int, float)):
                self.info[k] = self.info.get(k, 0) + v
            elif isinstance(v, dict):
                d = self.info.setdefault(k, {})
                for kk, vv in v.items():
                    if isinstance(vv, (int, float)) and k.startswith('max'):
                        d[kk] = max(d.get(kk, 0), vv)
                    elif isinstance(vv, (int, float)):
                        d[kk] = d.get(kk, 0) + vv
                    else:
                        d[kk] = vv
            elif isinstance(v, list):
                self.info.setdefault(k, [])
                if len(self.info[k]) < 40:
                    self.info[k].extend(v[:40 - len(self.info[k])])
            else:
                self.info[k] = v

    def add_cells(self, results, allow_timeouts=0):
        timeouts = 0
        for cell, res, status in results:
            self.cells += 1
            st = status.split(':')[0]
            self.cell_status[st] = self.cell_status.get(st, 0) + 1
            if status == 'ok':
                self.add(res)
            elif status == 'timeout':
                timeouts += 1
            else:
                self.inconclusive.append(
                    'cell crashed (%s): %s' % (status, (res or {}).get('log', '')[-600:]))
        if timeouts > allow_timeouts:
            self.inconclusive.append('%d cell(s) hit the wall-clock watchdog' % timeouts)

    def floor(self, counter, minimum, source=None):
        """Turn the run inconclusive when a deciding monitor saw too little."""
        src = self.events if source is None else source
        have = src.get(counter, 0) if isinstance(src, dict) else src
        if have < minimum:
            self.inconclusive.append(
                'monitor %s observed %d events (< floor %d)' % (counter, have, minimum))

    # finishing -----------------------------------------------------------
    def finish(self, rule, assumptions=(), extra=None, level='exploration',
               exhaustive=None):
        known = load_known()
        rdir = os.path.join(EVID, 'replay', self.prop)
        shutil.rmtree(rdir, ignore_errors=True)
        new, hits = [], {}
        for v in self.violations:
            k = match_known(self.prop, v.get('mech', {}), known)
            if k is None:
                new.append(v)
            else:
                hits.setdefault(k['id'], [k, 0, v])
                hits[k['id']][1] += 1
        lines = []
        os.makedirs(rdir, exist_ok=True)
        for kid, (k, n, v) in sorted(hits.items()):
            p = os.path.join(rdir, 'known-%s.json' % kid)
            with open(p, 'w') as f:
                json.dump(v, f, indent=1, default=str)
            lines.append('KNOWN-FINDING: property=%s %s: %s (hits=%d, witness=%s)' % (
                self.prop, kid, k.get('what', ''), n, os.path.relpath(p, VERIF)))
        seen_mech = {}
        for i, v in enumerate(new):
            mk = json.dumps(v.get('mech', {}), sort_keys=True)
            seen_mech[mk] = seen_mech.get(mk, 0) + 1
            if seen_mech[mk] > 3 or i > 60:
                continue
            p = os.path.join(rdir, 'violation-%03d.json' % i)
            with open(p, 'w') as f:
                json.dump(v, f, indent=1, default=str)
            lines.append('VIOLATION property=%s replay=%s' % (self.prop, os.path.relpath(p, VERIF)))
            lines.append('  mech=%s msg=%s' % (mk, str(v.get('msg', ''))[:300]))
        wall = time.time() - self.t0
        cov = {
            'evaluations': int(self.judged),
            'distinct_nontrivial': len(self.shapes),
            'rule': rule,
            'samples': self.samples[:self.max_samples] or ['<none>'],
            'events': self.events,
            'unjudged': self.unjudged,
            'cells': self.cells,
            'cell_status': self.cell_status,
            'known_finding_hits': {kid: n for kid, (k, n, v) in hits.items()},
            'new_violations': len(new),
            'repo': REPO,
        }
        if exhaustive is not None:
            cov['exhaustive'] = bool(exhaustive)
        cov.update(self.info)
        if extra:
            cov.update(extra)
        verdict = 'violated' if new else ('inconclusive' if self.inconclusive else 'held')
        cov['verdict'] = verdict
        if self.inconclusive:
            cov['inconclusive_reasons'] = self.inconclusive[:10]
        ev = {
            'property_id': self.prop, 'tier': self.tier, 'seed': int(self.seed),
            'level': level, 'coverage': cov, 'assumptions': list(assumptions),
            'wall_s': round(wall, 2), 'violations': len(new),
        }
        os.makedirs(EVID, exist_ok=True)
        with open(os.path.join(EVID, '%s.json' % self.prop), 'w') as f:
            json.dump(ev, f, indent=1, default=str)
        for ln in lines:
            print(ln)
        print('%s %s tier=%s seed=%s judged=%d shapes=%d cells=%d unjudged=%d wall=%.1fs verdict=%s' % (
            self.prop, 'summary', self.tier, self.seed, self.judged, len(self.shapes),
            self.cells, sum(self.unjudged.values()), wall, verdict))
        if new:
            return 1
        if self.inconclusive:
            for r in self.inconclusive[:10]:
                print('INCONCLUSIVE property=%s reason=%s' % (self.prop, r))
            return 2
        return 0


class CellOut:
    """Helper used inside a cell to build the standard result dict."""

    def __init__(self):
        self.events = {}
        self.judged = 0
        self.unjudged = {}
        self.shapes = set()
        self.samples = []
        self.violations = []
        self.info = {}

    def ev(self, k, n=1):
        self.events[k] = self.events.get(k, 0) + n

    def ok(self, shape=None, nontrivial=True):
        self.judged += 1
        if shape is not None and nontrivial:
            self.shapes.add(shape if len(str(shape)) == 16 and isinstance(shape, str)
                            else shape_hash(shape))

    def skip(self, reason):
        self.unjudged[reason] = self.unjudged.get(reason, 0) + 1

    def sample(self, s, cap=4):
        if len(self.samples) < cap:
            self.samples.append(s)

    def violation(self, mech, msg, witness=None, shape=None):
        self.judged += 1
        if shape is not None:
            self.shapes.add(shape_hash(shape))
        if len(self.violations) < 200:
            self.violations.append({'mech': mech, 'msg': msg, 'witness': witness})

    def result(self):
        return {'events': self.events, 'judged': self.judged, 'unjudged': self.unjudged,
                'shapes': sorted(self.shapes), 'samples': self.samples,
                'violations': self.violations, 'info': self.info}
