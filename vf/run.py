"""./check <ID> <quick|thorough> [--replay path]  -> dispatch to the property's lab."""
import importlib
import os
import sys

LABS = {
    'C01': 'vf.labs.pipeline', 'C02': 'vf.labs.pipeline', 'C03': 'vf.labs.pipeline',
    'C04': 'vf.labs.pipeline', 'C05': 'vf.labs.pipeline',
    'C06': 'vf.labs.typelab', 'C07': 'vf.labs.typelab', 'C08': 'vf.labs.typelab',
    'C09': 'vf.labs.typelab', 'C10': 'vf.labs.typelab',
    'C11': 'vf.labs.pipeline', 'C12': 'vf.labs.pipeline', 'C13': 'vf.labs.pipeline',
    'C14': 'vf.labs.compilerlab', 'C15': 'vf.labs.driverlab', 'C16': 'vf.labs.ctxlab',
    'C17': 'vf.labs.pipeline', 'C18': 'vf.labs.pipeline', 'C19': 'vf.labs.graphlab',
}


def main():
    if len(sys.argv) < 3:
        print(__doc__)
        return 3
    prop, tier = sys.argv[1], sys.argv[2]
    if tier == '--replay':
        tier = 'replay'
    os.environ.setdefault('VERIF_TIER', tier)
    mod = importlib.import_module(LABS[prop])
    if '--replay' in sys.argv:
        path = sys.argv[sys.argv.index('--replay') + 1]
        return mod.replay(prop, path)
    return mod.main(prop, tier)


if __name__ == '__main__':
    sys.exit(main())
