"""The pipeline engine: runs one *case* (language, switches, depth, seed) through
the same call sequence as hephaestus.gen_program (with --keep-all, so that the
generated, every erased and the overwritten program are all translated by ONE
translator object, as the driver does) and tells observers what happens.

Observers implement any of:
  case_begin(case)                     stage_begin(name) / stage_end(name, exc)
  after_generate(program)              before_transform(kind, k, program)
  after_transform(kind, k, program, transformer, result)
  before_translate(stage, program, translator, pkg)
  translated(stage, program, translator, text, pkg)
  exception(stage, exc, tb_frames)     case_end(case)
Stages: generate, translate:<stage>, erase<k>, overwrite.
An exception ends the case; it is reported through `exception`, never raised.
"""
import sys
import traceback

from vf import boot


def repo_frames(tb):
    out = []
    for fr in traceback.extract_tb(tb):
        fn = fr.filename
        if fn.startswith(boot.REPO):
            out.append((fn[len(boot.REPO):].lstrip('/'), fr.name, fr.lineno))
    return out


class Case:
    def __init__(self, lang, seed, switches=(), max_depth=None):
        self.lang, self.seed, self.switches, self.max_depth = lang, seed, tuple(switches), max_depth
        self.stages = []           # (stage, text)
        self.failed_at = None
        self.transformers = []

    def ident(self):
        d = {'lang': self.lang, 'seed': self.seed, 'switches': list(self.switches),
             'max_depth': self.max_depth}
        if getattr(self, 'pool_seed', None) is not None:
            d['pool_seed'] = self.pool_seed
        return d


def _call(observers, name, *a):
    for o in observers:
        f = getattr(o, name, None)
        if f is not None:
            f(*a)


class _Stage:
    def __init__(self, observers, case, name):
        self.obs, self.case, self.name = observers, case, name

    def __enter__(self):
        _call(self.obs, 'stage_begin', self.name)
        return self

    def __exit__(self, et, ev, tb):
        _call(self.obs, 'stage_end', self.name, ev)
        if ev is not None and isinstance(ev, Exception):
            self.case.failed_at = self.name
            _call(self.obs, 'exception', self.name, ev, repo_frames(tb),
                  ''.join(traceback.format_exception(et, ev, tb))[-3000:])
            return True
        return False


def run_case(heph, case, observers, n_transformations=None, inject=True,
             translate=True):
    from src import utils
    from src.modules import processor as procmod
    args = heph.cli_args
    boot.reseed(case.seed)
    pkgs = (utils.random.word(), utils.random.word())
    _call(observers, 'case_begin', case)
    translator = heph.TRANSLATORS[args.language]('src.' + pkgs[0], args.options['Translator'])
    if n_transformations is not None:
        args.transformations = n_transformations
    # capture the transformer object the processor creates
    last = {}
    orig_apply = procmod.ProgramProcessor._apply_transformation

    def apply_spy(self, transformation_cls, transformation_number, program):
        r = orig_apply(self, transformation_cls, transformation_number, program)
        last['t'] = r[1]
        return r
    procmod.ProgramProcessor._apply_transformation = apply_spy
    try:
        program = None
        with _Stage(observers, case, 'generate'):
            proc = heph.ProgramProcessor(case.seed % 100000, args)
            program, _oracle = proc.get_program()
        if case.failed_at:
            return case
        _call(observers, 'after_generate', program)

        def tr(stage, pkg):
            if not translate:
                return None
            text = None
            _call(observers, 'before_translate', stage, program, translator, pkg)
            with _Stage(observers, case, 'translate:' + stage):
                text = utils.translate_program(translator, program)
            if case.failed_at:
                return None
            case.stages.append((stage, text))
            _call(observers, 'translated', stage, program, translator, text, pkg)
            return text

        tr('generated', pkgs[0])
        if case.failed_at:
            return case
        k = 0
        while proc.can_transform():
            k += 1
            _call(observers, 'before_transform', 'erase', k, program)
            res = 'exc'
            with _Stage(observers, case, 'erase%d' % k):
                res = proc.transform_program(program)
            if case.failed_at:
                return case
            _call(observers, 'after_transform', 'erase', k, program, last.get('t'), res)
            if res is None:
                continue
            program = res[0]
            tr('erased%d' % k, pkgs[0])
            if case.failed_at:
                return case
        if inject:
            translator.package = 'src.' + pkgs[1]
            _call(observers, 'before_transform', 'overwrite', 0, program)
            res = 'exc'
            with _Stage(observers, case, 'overwrite'):
                res = proc.inject_fault(program)
            if case.failed_at:
                return case
            _call(observers, 'after_transform', 'overwrite', 0, program, last.get('t'), res)
            if res is not None:
                program = res[0]
                tr('overwritten', pkgs[1])
        return case
    finally:
        procmod.ProgramProcessor._apply_transformation = orig_apply
        _call(observers, 'case_end', case)
