"""C04 — type overwriting injects exactly one real type error (the fail oracle).

Around every TypeOverwriting.transform() of the driver (and, thorough tier, of
extra injections with other RNG seeds on faithful copies of the program):
 when is_transformed / error_injected:
  (a) exactly one declared type differs: {var_type, inferred_type} of one
      variable, {ret_type, inferred_type} of one function, or one explicit type
      argument of one constructor call / generic call; nothing else differs
  (b) the new type is unrelated to the old one: not a subtype, not a supertype
      (for a type variable: of its bound) and not assignable either way under
      the target language's conversions
  (c) error_injected names the old type, the new type and the node
  (d) the reference checker (inference mode) finds a definite type error that the program did not
      have before the injection; silent + every position judged (Kotlin, Scala) = violation,
      silent with unjudged positions = unjudged (counted)
  (e) Java: javac rejects the translation (compiled alone)
 when nothing was injected:
  (f) value and translation of the program are unchanged."""
import os
import pickle
import re

from vf import digest as dg, common, javac, irwalk, terms

D_RULES = {'INIT', 'ARG', 'RET', 'COND', 'ASSIGN', 'ELEM', 'DEFAULT', 'TARG', 'OVERRIDE', 'INFER'}
NUM = ['ByteType', 'ShortType', 'IntegerType', 'LongType', 'FloatType', 'DoubleType']
NUMERIC = set(NUM) | {'CharType', 'NumberType', 'BigDecimalType', 'BigIntegerType'}


def lang_assignable(s, t, lang, T, s_prim=False, t_prim=False):
    """Beyond subtyping: is a value of type s DEFINITELY assignable to t in
    `lang`?  Returns a reason or None.  An under-approximation of the
    language's conversions, so that a flagged pair really is related."""
    if s[0] != 'b' or t[0] != 'b' or s[1] == t[1]:
        return None
    widen = s[1] in NUM and t[1] in NUM and NUM.index(s[1]) < NUM.index(t[1])
    char_widen = s[1] == 'CharType' and t[1] in ('IntegerType', 'LongType', 'FloatType', 'DoubleType')
    if lang == 'scala':
        return 'numeric-widening' if (widen or char_widen) else None
    if lang in ('java', 'groovy'):
        # JLS 5.2: widening primitive conversion, possibly after unboxing; the
        # target must be primitive (no boxing after widening)
        if t_prim and (widen or char_widen):
            return 'numeric-widening-to-primitive'
    return None


def slots_inventory(program):
    """id(node) -> {slot: (term, str)} for the slots the mutation may touch."""
    from src.ir import ast
    inv = {}
    keep = []
    for node, anc in irwalk.iter_nodes(program):
        s = None
        if isinstance(node, ast.VariableDeclaration):
            s = {'var_type': node.var_type, 'inferred_type': node.inferred_type}
        elif isinstance(node, ast.FunctionDeclaration):
            s = {'ret_type': node.ret_type, 'inferred_type': node.inferred_type}
        elif isinstance(node, ast.New):
            s = {}
            for i, a in enumerate(getattr(node.class_type, 'type_args', []) or []):
                s['targ[%d]' % i] = a
        elif isinstance(node, ast.FunctionCall):
            s = {}
            for i, a in enumerate(node.type_args or []):
                s['targ[%d]' % i] = a
        if s is not None:
            inv[id(node)] = (node, {k: (terms.to_term(v), str(v), terms.mentions_primitive(v))
                                    for k, v in s.items()})
            keep.append(node)
    return inv


class Monitor:
    def __init__(self, out, cell):
        self.out = out
        self.cell = cell
        self.extra = cell.get('extra_injections', 0)
        self.java_files = []
        self.root = os.path.join(cell['_scratch'], 'c04')
        self.last_text = None
        self.last_pkg = None

    def case_begin(self, case):
        self.case = case
        self.state = None
        self.last_text = None

    def translated(self, stage, program, translator, text, pkg):
        kind = stage.rstrip('0123456789')
        if kind in ('generated', 'erased'):
            self.last_text, self.last_stage = text, stage
        if kind == 'overwritten' and self.case.lang == 'java' and self.pending is not None:
            self.pending['text'] = text
            self.pending['pkg'] = pkg
            self.pending['prev_text'] = self.last_text
            self.java_files.append(self.pending)
            self.pending = None

    def before_transform(self, kind, k, program):
        self.pending = None
        if kind != 'overwrite':
            self.state = None
            return
        self.state = self._snapshot(program)
        if self.extra and self.cell.get('shim', True):
            try:
                self.blob = pickle.dumps(program)
                self.blob_digest = dg.fast_digest(program)
            except Exception:
                self.blob = None
        else:
            self.blob = None

    def _snapshot(self, program):
        import hephaestus as H
        from src import utils
        text = None
        try:
            text = utils.translate_program(
                H.TRANSLATORS[self.case.lang]('src.vfpkg', H.cli_args.options['Translator']), program)
        except Exception:
            pass
        findings = None
        try:
            from vf import refcheck
            findings = {(f['rule'], f['msg']) for f in refcheck.Checker(program, self.case.lang, infer=True).run().findings}
        except RecursionError:
            pass
        return {'snap': dg.snapshot(program), 'inv': slots_inventory(program), 'text': text, 'findings': findings}

    def after_transform(self, kind, k, program, transformer, res):
        if kind != 'overwrite' or self.state is None or transformer is None:
            return
        st, self.state = self.state, None
        rec = self._judge(program, transformer, st, 'driver')
        if rec is not None and self.case.lang == 'java':
            self.pending = rec
        # extra injections on faithful copies (thorough tier)
        if self.blob is not None:
            from src import utils
            import hephaestus as H
            saved = utils.random.r.getstate()
            try:
                for j in range(self.extra):
                    q = pickle.loads(self.blob)
                    if dg.fast_digest(q) != self.blob_digest:
                        self.out.skip('copy-not-faithful')
                        break
                    utils.random.r.seed(common.h32(self.case.seed, 'inj', j))
                    st2 = self._snapshot(q)
                    try:
                        t2 = type(transformer)(q, H.cli_args.language, None, H.cli_args.options['TypeOverwriting'])
                        t2.transform()
                    except Exception as e:
                        self.out.ev('extra-injection-raised')
                        continue
                    self.out.ev('extra-injections')
                    rec2 = self._judge(t2.result(), t2, st2, 'extra')
                    if rec2 is not None and self.case.lang == 'java':
                        try:
                            rec2['text'] = utils.translate_program(
                                H.TRANSLATORS['java']('src.vfx%d' % j, H.cli_args.options['Translator']), t2.result())
                            rec2['pkg'] = 'vfx%d' % j
                            rec2['prev_text'] = None
                            self.java_files.append(rec2)
                        except Exception:
                            pass
            finally:
                utils.random.r.setstate(saved)
            self.blob = None

    # ------------------------------------------------------------------
    def _judge(self, program, transformer, st, origin):
        import hephaestus as H
        from src import utils
        out = self.out
        lang = self.case.lang
        w = {'case': self.case.ident(), 'origin': origin, 'cell_extra': {'extra_injections': self.extra}}
        injected = bool(transformer.is_transformed)
        msg = getattr(transformer, 'error_injected', None)
        after = dg.snapshot(program)
        d = dg.diff(st['snap'], after, limit=300)
        inv2 = slots_inventory(program)
        out.ev('overwrites')
        if not injected:
            out.ev('not-injected')
            bad = False
            if msg:
                bad = True
                out.violation({'rule': 'f-flag-message-disagree'}, 'is_transformed is False but error_injected=%r' % msg, w)
            if d:
                bad = True
                out.violation({'rule': 'f-program-changed-without-injection',
                               'attribute': re.sub(r'\d+', 'N', d[0][0].rsplit('.', 1)[-1])},
                              'nothing was injected but the program changed: %s' % (d[:3],), dict(w, diff=d[:8]))
            try:
                text2 = utils.translate_program(
                    H.TRANSLATORS[lang]('src.vfpkg', H.cli_args.options['Translator']), program)
            except Exception:
                text2 = None
            if st['text'] is not None and text2 is not None:
                out.ev('f-translations-compared')
                if text2 != st['text']:
                    bad = True
                    out.violation({'rule': 'f-translation-changed-without-injection'},
                                  'nothing was injected but the translation changed', w)
            if not bad:
                out.ok(('not-injected', lang, self.case.seed, origin), nontrivial=False)
            return None
        out.ev('injected')
        # (a) exactly one declared type
        changed = []
        for nid, (node, slots) in st['inv'].items():
            a = inv2.get(nid)
            if a is None:
                changed.append((node, '<node-vanished>', None, None))
                continue
            for k, (term, s, prim) in slots.items():
                t2 = a[1].get(k)
                if t2 is None or t2[0] != term:
                    changed.append((node, k, (term, s, prim), t2))
        nodes = {id(c[0]) for c in changed}
        ok_a = True
        kind = None
        if len(nodes) != 1:
            ok_a = False
        else:
            ks = sorted(c[1] for c in changed)
            if ks == ['inferred_type', 'var_type']:
                kind = 'variable'
            elif ks == ['inferred_type', 'ret_type']:
                kind = 'function'
            elif len(ks) == 1 and ks[0].startswith('targ['):
                kind = 'type-argument'
            else:
                ok_a = False
        # making the mutated constructor call's type arguments explicit again
        # (_can_infer_type_args True -> False) is part of overwriting "one
        # explicit type argument of a constructor call"
        explicit_again = [p for p in d if p[0].endswith('._can_infer_type_args') and p[1] == 'True'
                          and p[2] == 'False' and kind == 'type-argument']
        other = [p for p in d if p not in explicit_again and not re.search(
            r'\.(var_type|ret_type|inferred_type)$|\.type_args\.\d+(\.|$)|\.class_type(\.|$)|\.supertypes\.', p[0])]
        bad = False
        if not ok_a or other:
            bad = True
            out.violation({'rule': 'a-not-exactly-one-type', 'changed_nodes': min(len(nodes), 3),
                           'slots': ','.join(sorted({c[1].split('[')[0] for c in changed}))[:60],
                           'other_paths': bool(other)},
                          'the injection changed %d node(s) %s; other paths: %s' % (
                              len(nodes), sorted({(type(c[0]).__name__, c[1]) for c in changed})[:5],
                              [p[0][-70:] for p in other[:3]]),
                          dict(w, message=msg, diff=d[:10]))
            return None
        node = changed[0][0]
        main = [c for c in changed if c[1] != 'inferred_type'][0]
        new, new_s, new_prim = main[3]
        if kind in ('variable', 'function'):
            # the replaced type is the node's recorded type (an erased annotation is None)
            old, old_s, old_prim = [c for c in changed if c[1] == 'inferred_type'][0][2]
        else:
            old, old_s, old_prim = main[2]
        T = terms.Table.from_program(program)
        for c in changed:
            pass
        w.update({'kind': kind, 'node': getattr(node, 'name', getattr(node, 'func', type(node).__name__)),
                  'old': terms.term_str(old), 'new': terms.term_str(new), 'message': msg})
        shape = ('inj', lang, kind, terms.shape(old), terms.shape(new))
        # (c) message
        out.ev('messages-checked')
        if not msg or old_s not in msg or new_s not in msg:
            bad = True
            out.violation({'rule': 'c-message-lacks-types'},
                          'error_injected %r does not name old %r and new %r' % (msg, old_s, new_s), w, shape)
        nm = w['node']
        if kind in ('variable', 'function') and msg and str(nm) not in msg.split(' found in node ')[-1]:
            bad = True
            out.violation({'rule': 'c-message-lacks-node'},
                          'error_injected %r does not name the mutated node %s' % (msg, nm), w, shape)
        # (b) unrelated
        o2 = old          # a type variable is compared as such (its bound is what it is below)
        rel = None
        if new[0] in terms.UNJUDGED_KINDS or o2[0] in terms.UNJUDGED_KINDS:
            out.skip('b:unjudgeable-kind')
        else:
            a1, a2 = terms.refsub3(new, o2, T), terms.refsub3(o2, new, T)
            if a1:
                rel = ('subtype', 'new-below-old')
            elif a2:
                rel = ('supertype', 'new-above-old')
            else:
                # a value whose type is a variable converts the way its bound does
                ob = o2
                hops = 0
                while ob is not None and ob[0] == 'v' and hops < 6:
                    ob, hops = ob[3], hops + 1
                ob = ob if ob is not None else o2
                r1 = lang_assignable(ob, new, lang, T, old_prim, new_prim)
                r2 = lang_assignable(new, ob, lang, T, new_prim, old_prim) if ob is o2 else None
                if r1 or r2:
                    rel = ('assignable', r1 or r2)
                elif a1 is None or a2 is None:
                    out.skip('b:oracle-unknown')
            out.ev('b-relations-checked')
            if rel:
                bad = True
                out.violation({'rule': 'b-related-replacement', 'relation': rel[0], 'cause': rel[1], 'kind': kind,
                               'old_is_variable': old[0] == 'v', 'old_is_primitive': bool(old_prim)},
                              'the replacement %s is related to the replaced %s (%s, %s)' % (
                                  terms.term_str(new), terms.term_str(old), rel[0], rel[1]), w, shape)
        # (d) a correct type checker must reject: the reference checker (inference mode: annotations an
        # earlier erasure removed are re-inferred) must find a definite error that the program did not
        # have before the injection
        dverdict = self._clause_d(program, st, kind, node, old, new, rel, w, shape)
        if dverdict == 'violation':
            bad = True
        if not bad:
            out.ok(shape, nontrivial=True)
        if len(out.samples) < 3:
            out.sample({'case': self.case.ident(), 'kind': kind, 'node': str(nm), 'old': terms.term_str(old),
                        'new': terms.term_str(new), 'message': msg})
        return {'case': self.case.ident(), 'kind': kind, 'old': old, 'new': new, 'related': rel,
                'old_prim': old_prim, 'new_prim': new_prim, 'origin': origin, 'message': msg,
                'node_cls': type(node).__name__,
                'diamond': bool(getattr(getattr(node, 'class_type', None), 'can_infer_type_args', False)),
                'uid': 'f%05d' % len(self.java_files)}

    def _clause_d(self, program, st, kind, node, old, new, rel, w, shape):
        from vf import refcheck
        out = self.out
        lang = self.case.lang
        try:
            ck = refcheck.Checker(program, lang, infer=True).run()
        except RecursionError:
            out.skip('d:checker-recursion')
            return None
        out.ev('d-checker-runs')
        base = st.get('findings')
        fresh = [f for f in ck.findings if f['rule'] in D_RULES and (base is None or (f['rule'], f['msg']) not in base)]
        if fresh:
            out.ev('d:checker-rejects')
            out.ev('d:checker-rejects:' + fresh[0]['rule'])
            return 'ok'
        nun = sum(v for k, v in ck.unjudged.items() if k.split(':')[0] in D_RULES)
        out.ev('d:checker-silent')
        out.ev('d:checker-silent:%s' % kind)
        if len(out.info.setdefault('d_silent', [])) < 12:
            out.info['d_silent'].append({'case': self.case.ident(), 'kind': kind, 'old': terms.term_str(old),
                                         'new': terms.term_str(new), 'node': str(w.get('node')),
                                         'unjudged': nun, 'related': rel, 'origin': w.get('origin')})
        if lang in ('kotlin', 'scala') and nun == 0 and not rel:
            # every typed position of the mutated program was judged (no numeric leniency in these two
            # languages) and none is a definite error: the mutant is well-typed for the reference checker
            out.violation({'rule': 'd-checker-accepts-mutant', 'kind': kind, 'lang': lang},
                          'no typed position of the overwritten program is an error (%s: %s -> %s); every position '
                          'was judged' % (kind, terms.term_str(old), terms.term_str(new)), w, shape)
            return 'violation'
        out.skip('d:checker-silent-with-unjudged-positions')
        return None

    def finish(self):
        out = self.out
        if not self.java_files:
            return
        if not javac.have_javac():
            out.skip('javac-missing')
            return
        import shutil
        paths = {}
        for i, f in enumerate(self.java_files):
            d = os.path.join(self.root, 'f%05d' % i, 'src', f['pkg'])
            os.makedirs(d, exist_ok=True)
            p = os.path.join(d, 'Main.java')
            with open(p, 'w') as fh:
                fh.write(f['text'])
            paths[p] = f
        truth = javac.compile_alone(list(paths), os.path.join(self.root, 'drv'))
        if truth is None:
            out.skip('alone-driver-failed')
            return
        for p, f in paths.items():
            out.ev('javac-overwritten-runs')
            t = truth[p]
            if t['rc'] != 0 and t['errors']:
                out.ok(('javac-rejects', f['kind'], common.shape_hash(f['text'])), True)
                continue
            if t['rc'] != 0:
                out.skip('e:javac-failed-without-diagnostics')
                continue
            # accepted: classify the mechanism structurally
            if f['kind'] == 'type-argument' and f['node_cls'] == 'FunctionCall':
                cause = 'call-type-argument-never-printed'
            elif f['kind'] == 'type-argument' and f['diamond']:
                cause = 'type-argument-hidden-behind-diamond'
            elif f['related'] and f['related'][0] == 'assignable':
                cause = 'related:' + f['related'][1]
            elif f['related']:
                cause = 'related:' + f['related'][0]
            elif f['old'][0] == 'b' and f['new'][0] == 'b' and \
                    {f['old'][1], f['new'][1]} <= {'ByteType', 'ShortType', 'CharType', 'IntegerType'}:
                # JLS 5.2: a constant expression of type byte/short/char/int narrows (and boxes) when the
                # value fits: `Byte b = (short) 5;` compiles
                cause = 'numeric-constant-narrowing'
            elif f.get('prev_text') is not None and f['prev_text'].split('\n', 1)[-1] == f['text'].split('\n', 1)[-1]:
                cause = 'translation-unchanged'
            else:
                cause = 'other'
            out.violation({'rule': 'e-javac-accepts-mutant', 'kind': f['kind'], 'cause': cause},
                          'javac accepts the overwritten program (%s: %s -> %s)' % (
                              f['kind'], terms.term_str(f['old']), terms.term_str(f['new'])),
                          {'case': f['case'], 'origin': f['origin'], 'message': f['message'],
                           'cell_extra': {'extra_injections': self.extra}})
        shutil.rmtree(self.root, ignore_errors=True)


CELL_TIMEOUT = 2400


def plan(tier, seed):
    from vf.boot import LANGS, SWITCHES
    p = []
    q = tier == 'quick'
    for lang in LANGS:
        p.append({'lang': lang, 'n': 36 if q else 200, 'chunk': 9 if q else 20,
                  'extra_injections': 3 if q else 7})
        p.append({'lang': lang, 'n': 12 if q else 100, 'chunk': 6 if q else 20, 'transformations': 0,
                  'tag': 'noerase', 'extra_injections': 3 if q else 7})
        if not q:
            p.append({'lang': lang, 'n': 60, 'chunk': 20, 'switches': [SWITCHES[2], SWITCHES[3]], 'tag': 'sw',
                      'extra_injections': 3})
    return p


def finish(agg, tier):
    q = tier == 'quick'
    agg.floor('overwrites', 400 if q else 6000)
    agg.floor('injected', 250 if q else 4000)
    agg.floor('b-relations-checked', 250 if q else 4000)
    agg.floor('messages-checked', 250 if q else 4000)
    agg.floor('javac-overwritten-runs', 25 if q else 1000)
    agg.floor('d-checker-runs', 250 if q else 4000)
    agg.floor('d:checker-rejects', 150 if q else 2400)
    return agg.finish(
        rule='judged = TypeOverwriting.transform() runs (the driver\'s injection on generated and erased programs; '
             'thorough: 7 more injections per program under other RNG seeds on faithful copies) + javac runs on the '
             'overwritten Java translations; distinct non-trivial = distinct (language, mutated-node kind, old type '
             'shape, new type shape) / rejected mutant texts',
        assumptions=['"a correct type checker must reject" is decided by javac for Java; for Kotlin, Groovy and Scala '
                     'by the reference checker in inference mode (clause d): a definite error it finds confirms the '
                     'injection, silence with unjudged positions is unjudged (no compiler is installed for them)',
                     'language assignability tables under-approximate the real conversions: a flagged pair is definitely related'])
