"""C03 — type erasure only removes inferable type information.

Around every TypeErasure.transform() of the driver:
  R1  the path-wise value diff of the program (snapshot before / after) contains
      only: VariableDeclaration.var_type T -> None, FunctionDeclaration.ret_type
      T -> None, ParameterizedType._can_infer_type_args False -> True on the
      class_type of a New, FunctionCall._can_infer_type_args False -> True.
      (FunctionCall.type_parameters, a cache the dependency analysis writes, is
      analysis metadata and excluded from the digest.)
  (is_transformed vs. "something was removed" is recorded as information: the
   property does not speak about the flag)
  R2  (Java) javac accepts the erased translation whenever it accepted the
      translation before that erasure; (all languages) every removed variable /
      return annotation is recoverable: the declaration still records the type
      it had (inferred_type == removed type) -- the compiler-side inference is
      judged by javac for the diamond and, for declared types, by the
      initializer/return expression's recorded type where the IR records one."""
import os
import re

from vf import digest as dg, common, javac, irwalk, terms

R2_RULES = {'INIT', 'ARG', 'RET', 'COND', 'ASSIGN', 'ELEM', 'DEFAULT', 'TARG', 'OVERRIDE', 'INFER'}

ALLOWED = [
    (re.compile(r'\.var_type$'), 'var_type'),
    (re.compile(r'\.ret_type$'), 'ret_type'),
    (re.compile(r'\._can_infer_type_args$'), 'can_infer'),
]


def classify(path, old, new, owner_cls):
    if path.endswith('.var_type') and new == 'None' and old != 'None':
        return 'var_type-removed'
    if path.endswith('.ret_type') and new == 'None' and old != 'None':
        return 'ret_type-removed'
    if path.endswith('._can_infer_type_args') and old == 'False' and new == 'True':
        return 'type-args-made-inferable'
    return None


class Monitor:
    def __init__(self, out, cell):
        self.out = out
        self.cell = cell
        self.java_files = []
        self.root = os.path.join(cell['_scratch'], 'c03')
        self.max_comb = cell.get('max_combinations')

    def case_begin(self, case):
        self.case = case
        self.prev_text = None
        self.before = None
        if self.max_comb is not None:
            import hephaestus as H
            H.cli_args.options['TypeErasure']['max_combinations'] = self.max_comb

    def translated(self, stage, program, translator, text, pkg):
        kind = stage.rstrip('0123456789')
        if self.case.lang == 'java' and kind in ('generated', 'erased'):
            self.java_files.append({'case': self.case.ident(), 'stage': stage, 'pkg': pkg, 'text': text,
                                    'prev': self.prev_text, 'kind': kind,
                                    'uid': 'f%05d' % len(self.java_files)})
        if kind in ('generated', 'erased'):
            self.prev_text = text

    def before_transform(self, kind, k, program):
        if kind != 'erase':
            self.before = None
            return
        self.before = dg.snapshot(program)
        self.inv_before = self._inventory(program)
        # findings of the reference checker in inference mode BEFORE this erasure (baseline of R2)
        self.base_findings = None
        try:
            from vf import refcheck
            ck = refcheck.Checker(program, self.case.lang, infer=True).run()
            self.base_findings = {(f['rule'], f['msg']) for f in ck.findings}
        except RecursionError:
            pass

    def _inventory(self, program):
        """id(node) -> (class, name, declared var/ret type term) for declarations."""
        from src.ir import ast
        inv = {}
        self.ns_of = getattr(self, 'ns_of', {})
        for node, anc in irwalk.iter_nodes(program):
            if isinstance(node, ast.VariableDeclaration):
                self.ns_of[id(node)] = ('global',) + tuple(
                    x.name for x in anc if isinstance(x, (ast.ClassDeclaration, ast.FunctionDeclaration, ast.Lambda)))
                inv[id(node)] = ('var', node, terms.to_term(node.var_type), terms.to_term(node.inferred_type))
            elif isinstance(node, ast.FunctionDeclaration):
                inv[id(node)] = ('fun', node, terms.to_term(node.ret_type), terms.to_term(node.inferred_type))
        return inv

    def _simple_ty(self, e, program, ns, depth=0):
        """Type of an initializer where the IR records it directly; None = not simple."""
        from src.ir import ast
        f = program.bt_factory
        if depth > 6 or e is None:
            return None
        if isinstance(e, ast.IntegerConstant):
            return terms.to_term(e.integer_type) if e.integer_type is not None else None
        if isinstance(e, ast.RealConstant):
            return terms.to_term(e.real_type) if e.real_type is not None else None
        if isinstance(e, ast.StringConstant):
            return terms.to_term(f.get_string_type())
        if isinstance(e, ast.CharConstant):
            return terms.to_term(f.get_char_type())
        if isinstance(e, ast.BooleanConstant) or (isinstance(e, ast.BinaryOp) and not isinstance(e, ast.ArithExpr)):
            return terms.to_term(f.get_boolean_type())
        if isinstance(e, ast.New):
            ct = e.class_type
            if getattr(ct, 'can_infer_type_args', False):
                return None
            return terms.to_term(ct)
        if isinstance(e, ast.ArrayExpr):
            return terms.to_term(e.array_type)
        if isinstance(e, ast.Lambda):
            return terms.to_term(e.signature)
        if isinstance(e, ast.FunctionReference):
            return terms.to_term(e.signature)
        if isinstance(e, ast.Conditional):
            return terms.to_term(e.inferred_type)
        if isinstance(e, ast.Variable) and ns is not None:
            ctx = program.context._context
            cur = tuple(ns)
            while cur:
                d = ctx.get(cur, {}).get('decls', {}).get(e.name)
                if d is not None:
                    t = getattr(d, 'inferred_type', None) or getattr(d, 'param_type', None) or \
                        getattr(d, 'field_type', None)
                    return terms.to_term(t) if t is not None else None
                cur = cur[:-1]
            return None
        return None

    def after_transform(self, kind, k, program, transformer, res):
        if kind != 'erase' or self.before is None:
            return
        out = self.out
        after = dg.snapshot(program)
        d = dg.diff(self.before, after, limit=400)
        self.before = None
        out.ev('erasures')
        kinds = {}
        bad = False
        w = {'case': self.case.ident(), 'erasure': k}
        for path, old, new in d:
            c = classify(path, old, new, None)
            if c is None:
                bad = True
                attr = path.rsplit('.', 1)[-1]
                out.violation({'rule': 'R1-forbidden-change', 'attribute': re.sub(r'\d+', 'N', attr)},
                              'TypeErasure changed %s: %s -> %s' % (path[-120:], old, new),
                              dict(w, path=path, old=old, new=new, diff=d[:12]))
            else:
                kinds[c] = kinds.get(c, 0) + 1
                out.ev('removed:' + c)
        flagged = bool(getattr(transformer, 'is_transformed', False))
        if flagged != bool(d):
            # not part of the property's statement (a second erasure re-omits
            # what is already omitted and still reports True): information only
            out.ev('info:is_transformed-%s-but-%s' % (flagged, 'changed' if d else 'unchanged'))
        # removed annotation still recorded as inferred_type, unchanged
        inv_after = self._inventory(program)
        for nid, (knd, node, declared, inferred) in self.inv_before.items():
            a = inv_after.get(nid)
            if a is None:
                continue
            out.ev('declarations-compared')
            if a[3] != inferred:
                bad = True
                out.violation({'rule': 'R1-inferred-type-changed', 'decl': knd},
                              'inferred_type of %s %s changed: %s -> %s' % (
                                  knd, node.name, terms.term_str(inferred), terms.term_str(a[3])), w)
            if declared != ('none',) and a[2] == ('none',) and inferred != declared:
                bad = True
                out.violation({'rule': 'R2-removed-type-not-recorded', 'decl': knd},
                              'the removed annotation %s of %s %s is not the recorded inferred type %s' % (
                                  terms.term_str(declared), knd, node.name, terms.term_str(inferred)), w)
        # R2 (initializers): what a compiler infers for `val x = e` is the type of e
        for nid, (knd, node, declared, inferred) in self.inv_before.items():
            a = inv_after.get(nid)
            if a is None or knd != 'var' or declared == ('none',) or a[2] != ('none',):
                continue
            ty = self._simple_ty(node.expr, program, self.ns_of.get(nid))
            if ty is None:
                out.skip('R2:initializer-type-not-simple')
                continue
            out.ev('initializers-judged')
            if ty != declared and ty != ('bot',):
                # the variable's type narrows to the initializer's type; whether the program
                # stays well-typed depends on every later use (reference checker) -> counted only
                out.ev('info:erased-variable-narrows-to-initializer-type')
        # R2 (inference): no removed return type belongs to an expression-bodied function that calls itself
        try:
            from vf import refcheck
            ck = refcheck.Checker(program, self.case.lang).run()
            out.ev('infer-positions', ck.stats.get('INFER', 0))
            for f in ck.findings:
                if f['rule'] == 'INFER':
                    bad = True
                    out.violation({'rule': 'R2-return-type-not-inferable'}, f['msg'], w)
        except RecursionError:
            out.skip('checker-recursion')
        # R2 (inference mode): the erased program re-checked with every omitted annotation replaced by
        # what the model of compiler inference yields; a definite error that the program did not have
        # before this erasure is a violation
        try:
            if self.base_findings is not None:
                ck = refcheck.Checker(program, self.case.lang, infer=True).run()
                out.ev('inference-mode-runs')
                out.ev('inference-mode:annotations-recovered', ck.stats.get('INFER', 0))
                for k2, v2 in ck.unjudged.items():
                    if k2.startswith('INFER:') or k2.startswith('inferred-differs'):
                        out.ev('inference-mode:' + k2, v2)
                seen = set()
                for f in ck.findings:
                    key = (f['rule'], f['msg'])
                    if key in self.base_findings or key in seen or f['rule'] not in R2_RULES:
                        continue
                    seen.add(key)
                    bad = True
                    out.violation({'rule': 'R2-inference-mode', 'check': f['rule'], 'lang': self.case.lang,
                                   'kind': f['extra'].get('kind')},
                                  'after erasure %d (types re-inferred): %s' % (k, f['msg'][:300]),
                                  dict(w, finding=f['msg'], differs=[
                                      (a, b, terms.term_str(c), terms.term_str(d2))
                                      for a, b, c, d2 in getattr(ck, 'inferred_differs', [])[:6]]))
        except RecursionError:
            out.skip('checker-recursion')
        if not bad:
            out.ok(('erase', self.case.lang, tuple(sorted(kinds.items())), self.case.seed, k),
                   nontrivial=bool(d))
        if len(out.samples) < 2 and d:
            out.sample({'case': self.case.ident(), 'erasure': k, 'is_transformed': flagged,
                        'removed': kinds, 'first_paths': [p[-80:] for p, _, _ in d[:4]]})

    def finish(self):
        """Java: javac on every translation; an erased text that javac rejects
        although it accepted the text before that erasure -> R2 violation."""
        out = self.out
        if not self.java_files:
            return
        if not javac.have_javac():
            out.skip('javac-missing')
            return
        import shutil
        paths = {}
        for f in self.java_files:
            d = os.path.join(self.root, f['uid'], 'src', f['pkg'])
            os.makedirs(d, exist_ok=True)
            p = os.path.join(d, 'Main.java')
            with open(p, 'w') as fh:
                fh.write(f['text'])
            f['path'] = p
            paths[p] = f
        truth = javac.compile_alone(list(paths), os.path.join(self.root, 'drv'))
        if truth is None:
            out.skip('alone-driver-failed')
            return
        verdict_by_text = {}
        for p, f in paths.items():
            verdict_by_text[f['text']] = truth[p]
        for p, f in paths.items():
            if f['kind'] != 'erased' or f['prev'] is None:
                continue
            out.ev('javac-erased-compared')
            t = truth[p]
            before = verdict_by_text.get(f['prev'])
            if before is None:
                continue
            if before['rc'] == 0 and t['rc'] != 0 and t['errors']:
                first = t['errors'][0]
                out.violation({'rule': 'R2-javac-rejects-erased', 'cause': javac.normalize_message(first[1])},
                              'javac accepted the program before erasure %s but rejects it after: line %d: %s' % (
                                  f['stage'], first[0], first[1]),
                              {'case': f['case'], 'stage': f['stage'], 'errors': t['errors'][:4]})
            elif before['rc'] == 0:
                out.ok(('javac-erased', common.shape_hash(f['text'])), nontrivial=f['text'] != f['prev'])
            else:
                out.skip('program-rejected-before-erasure')
        shutil.rmtree(self.root, ignore_errors=True)


CELL_TIMEOUT = 2400


def plan(tier, seed):
    from vf.boot import LANGS, SWITCHES
    p = []
    q = tier == 'quick'
    for lang in LANGS:
        p.append({'lang': lang, 'n': 30 if q else 300, 'chunk': 10 if q else 25, 'inject': False})
        p.append({'lang': lang, 'n': 6 if q else 60, 'chunk': 6 if q else 20, 'inject': False,
                  'transformations': 3, 'tag': 't3'})
        if not q:
            for mc in (1, 10):
                p.append({'lang': lang, 'n': 40, 'chunk': 20, 'inject': False, 'max_combinations': mc,
                          'tag': 'mc%d' % mc})
            p.append({'lang': lang, 'n': 40, 'chunk': 20, 'inject': False, 'switches': [SWITCHES[0]], 'tag': 'nousv'})
            p.append({'lang': lang, 'n': 30, 'chunk': 15, 'inject': False, 'max_depth': 7})
    return p


def finish(agg, tier):
    q = tier == 'quick'
    agg.floor('erasures', 250 if q else 3000)
    agg.floor('declarations-compared', 5000 if q else 60000)
    agg.floor('removed:var_type-removed', 100 if q else 1200)
    agg.floor('removed:type-args-made-inferable', 40 if q else 500)
    agg.floor('javac-erased-compared', 40 if q else 500)
    agg.floor('inference-mode-runs', 250 if q else 3000)
    agg.floor('inference-mode:annotations-recovered', 8000 if q else 100000)
    return agg.finish(
        rule='judged = TypeErasure.transform() runs of the driver (1-3 successive erasures per program, 4 languages, '
             'max_combinations in {1, 10, default}) whose before/after value snapshots were diffed path-wise against '
             'the whitelist and whose result was re-checked by the reference checker in inference mode (omitted '
             'annotations re-inferred; findings compared with those before the erasure), plus Java erased translations '
             'compared with javac against the translation before that '
             'erasure; distinct non-trivial = erasures that removed something / erased texts that differ',
        assumptions=['FunctionCall.type_parameters (analysis cache) is not part of the program value',
                     'for Kotlin/Groovy/Scala no compiler is installed: "still typable" is decided by the reference '
                     'checker with a model of compiler inference (expected type, invariant argument positions, lower '
                     'bounds, dependent bounds as the tool documents them); what the model cannot decide is unjudged and '
                     'counted (events inference-mode:INFER:*); Java translations print inferred types, so javac exercises '
                     'the diamond (constructor type-argument) part of the erasure'])
