"""C13 — saved programs replay faithfully.

At every save point of the driver (generated, after each erasure, after
overwriting) the program p is written with the tool's own dump and read back
through the --replay path (ProgramProcessor.get_program with args.replay set):
  R1  value digest of q = load(dump(p)) equals that of p
  R2  q translates to the same text as p in each of the four translators
      (same outcome class when a foreign-language translator raises)
  R3  dump/load of q again is stable (digest)
  R4  shadow pipeline: the mutation the driver applies next to p is applied to
      q with the RNG state restored -> same is_transformed / error_injected,
      same digest, same translation, same RNG state afterwards.
R4 needs the deterministic identity-hash shim (the stamp is pickled with the
node) and is skipped in no-shim cells."""
import os

from vf import digest as dg


class Monitor:
    def __init__(self, out, cell):
        self.out = out
        self.cell = cell
        self.shim = cell.get('shim', True)
        self.dir = os.path.join(cell['_scratch'], 'dumps')
        os.makedirs(self.dir, exist_ok=True)
        self.n = 0
        self.shadow = None

    def case_begin(self, case):
        self.case = case
        self.shadow = None

    def _viol(self, rule, msg, extra=None):
        w = {'case': self.case.ident(), 'cell_extra': {'shim': self.shim}}
        if extra:
            w.update(extra)
        self.out.violation({'rule': rule, 'lang': self.case.lang}, msg, w)

    def _roundtrip(self, program):
        import hephaestus as H
        from src import utils
        self.n += 1
        path = os.path.join(self.dir, 'p%d.bin' % (self.n % 4))
        utils.dump_program(path, program)
        args = H.cli_args
        old = args.replay
        args.replay = path
        try:
            proc = H.ProgramProcessor(1, args)
            q, _ = proc.get_program()
        finally:
            args.replay = old
        return q, path

    def _texts(self, program, pkg):
        import hephaestus as H
        from src import utils
        res = {}
        for lang, T in H.TRANSLATORS.items():
            try:
                res[lang] = ('text', utils.translate_program(
                    T('src.' + pkg, H.cli_args.options['Translator']), program))
            except Exception as e:
                res[lang] = ('raised', type(e).__name__)
        return res

    # save points = after every translation of the driver
    def translated(self, stage, program, translator, text, pkg):
        out = self.out
        bad = 0
        try:
            q, path = self._roundtrip(program)
        except Exception as e:
            self._viol('dump-load-raised', 'dump/load of the %s program raised %s: %s' % (
                stage, type(e).__name__, str(e)[:200]), {'stage': stage})
            return
        out.ev('roundtrips')
        dp, dq = dg.fast_digest(program), dg.fast_digest(q)
        if dp != dq:
            bad += 1
            sp, sq = dg.snapshot(program), dg.snapshot(q)
            d = dg.diff(sp, sq, limit=6)
            self._viol('digest-differs', 'load(dump(p)) differs from p at stage %s: %s' % (stage, d[:3]),
                       {'stage': stage, 'diff': d})
        tp_, tq = self._texts(program, pkg), self._texts(q, pkg)
        for lang in tp_:
            out.ev('text-comparisons')
            if tp_[lang] != tq[lang]:
                bad += 1
                self._viol('translation-differs',
                           'the reloaded %s program translates differently with the %s translator (%s vs %s)' % (
                               stage, lang, tp_[lang][0], tq[lang][0]), {'stage': stage, 'translator': lang})
        if tp_[self.case.lang] != ('text', text):
            # the driver's own text must also be what a fresh translator gives (C11's business; noted)
            out.ev('driver-text-differs-from-fresh')
        try:
            q2, _ = self._roundtrip(q)
            out.ev('second-roundtrips')
            if dg.fast_digest(q2) != dq:
                bad += 1
                self._viol('second-dump-unstable', 'load(dump(load(dump(p)))) differs at stage %s' % stage,
                           {'stage': stage})
        except Exception as e:
            bad += 1
            self._viol('dump-load-raised', 'second dump/load raised %s' % type(e).__name__, {'stage': stage})
        if not bad:
            out.ok(('rt', self.case.lang, stage.rstrip('0123456789'), dp), nontrivial=len(text) > 400)
        if len(out.samples) < 2:
            out.sample({'case': self.case.ident(), 'stage': stage, 'pickle_bytes': os.path.getsize(path),
                        'digest_equal': dp == dq,
                        'translators_equal': {k: tp_[k] == tq[k] for k in tp_}})

    # shadow pipeline -----------------------------------------------------
    def before_transform(self, kind, k, program):
        from src import utils
        if not self.shim:
            return
        try:
            q, _ = self._roundtrip(program)
        except Exception:
            self.shadow = None
            return
        self.shadow = (q, utils.random.r.getstate(), set(utils.random.WORDS))

    def after_transform(self, kind, k, program, transformer, res):
        from src import utils
        import hephaestus as H
        if not self.shim or self.shadow is None or transformer is None:
            return
        q, st1, words1 = self.shadow
        self.shadow = None
        out = self.out
        st2, words2 = utils.random.r.getstate(), set(utils.random.WORDS)
        utils.random.r.setstate(st1)
        utils.random.WORDS = set(words1)
        try:
            args = H.cli_args
            if kind == 'overwrite':
                # ProgramProcessor.inject_fault draws the mutation class first
                utils.random.choice([type(transformer)])
            t2 = type(transformer)(q, args.language, None, args.options[type(transformer).get_name()])
            t2.transform()
            q2 = t2.result()
            st3 = utils.random.r.getstate()
        except Exception as e:
            self._viol('shadow-mutation-raised',
                       '%s on the reloaded program raised %s: %s while it succeeded on the original' % (
                           type(transformer).__name__, type(e).__name__, str(e)[:160]), {'mutation': kind})
            return
        finally:
            utils.random.r.setstate(st2)
            utils.random.WORDS = words2
        out.ev('shadow-mutations')
        bad = 0
        if bool(t2.is_transformed) != bool(transformer.is_transformed):
            bad += 1
            self._viol('mutation-flag-differs', '%s: is_transformed %s on original, %s on reloaded' % (
                kind, transformer.is_transformed, t2.is_transformed), {'mutation': kind})
        e1, e2 = getattr(transformer, 'error_injected', None), getattr(t2, 'error_injected', None)
        if e1 != e2:
            bad += 1
            self._viol('mutation-message-differs', '%s: error_injected %r vs %r' % (kind, e1, e2),
                       {'mutation': kind})
        if dg.fast_digest(program) != dg.fast_digest(q2):
            bad += 1
            d = dg.diff(dg.snapshot(program), dg.snapshot(q2), limit=6)
            self._viol('mutation-result-differs', '%s gives a different program on the reloaded copy: %s' % (
                kind, d[:3]), {'mutation': kind, 'diff': d})
        if st3 != st2:
            bad += 1
            self._viol('mutation-rng-diverges', '%s consumed different random choices on the reloaded copy' % kind,
                       {'mutation': kind})
        if not bad:
            out.ok(('shadow', self.case.lang, kind, bool(transformer.is_transformed), dg.fast_digest(q2)),
                   nontrivial=bool(transformer.is_transformed))


CELL_TIMEOUT = 1500


def plan(tier, seed):
    from vf.boot import LANGS, SWITCHES
    p = []
    n = 20 if tier == 'quick' else 200
    ch = 10 if tier == 'quick' else 20
    for lang in LANGS:
        p.append({'lang': lang, 'n': n, 'chunk': ch})
        p.append({'lang': lang, 'n': n // 4, 'chunk': ch, 'tag': 'noshim', 'shim': False})
        if tier != 'quick':
            p.append({'lang': lang, 'n': 60, 'chunk': 20, 'switches': [SWITCHES[0], SWITCHES[2]], 'tag': 'sw'})
            p.append({'lang': lang, 'n': 40, 'chunk': 20, 'max_depth': 7, 'transformations': 3})
    return p


def finish(agg, tier):
    q = tier == 'quick'
    agg.floor('roundtrips', 250 if q else 3000)
    agg.floor('second-roundtrips', 250 if q else 3000)
    agg.floor('text-comparisons', 1000 if q else 12000)
    agg.floor('shadow-mutations', 150 if q else 2000)
    return agg.finish(
        rule='judged = (program, save point) round trips through utils.dump_program and the --replay load path '
             '(digest, 4 translators, second round trip) + shadow mutations (the driver\'s next TypeErasure / '
             'TypeOverwriting re-applied to the reloaded copy under the same RNG state); distinct non-trivial = '
             'distinct program values with text > 400 bytes / shadow mutations that transformed',
        assumptions=['value-structural digest (sharing ignored); byte equality of pickles is not demanded',
                     'shadow mutations run only under the deterministic identity-hash shim (the stamp is pickled '
                     'with the node); no-shim cells judge digest / translation / stability only'])
