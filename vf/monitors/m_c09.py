"""C09 — subtype search and irrelevant-type search return only what they promise.

find_subtypes(T, types, include_self, bound, concrete_only, ignore_variance) -> list
  F1  every result r is a subtype of T in the declarative relation
  F2  with concrete_only, no result is an uninstantiated generic class
  F3  T itself is in the result exactly when include_self
find_irrelevant_type(T, types, factory) -> r | None
  I1  r is neither a subtype nor a supertype of T' (T' = T, or its bound for a type variable)
  I2  nothing is returned for the top type"""
import random

from vf import terms, common
from vf.terms import INV, COV, CON


def kind_of(x, T):
    if x[0] == 'b':
        return 'top' if terms.is_top(x, T) else 'builtin'
    if x[0] == 'c':
        return 'generic' if x[2] else 'class'
    return x[0]


def subtype_cause(r, t, T):
    """Why is r not a subtype of t?  Same class: which argument positions fail
    containment, and is one of them a parameter that another parameter's bound
    depends on (the dependent-bounds bookkeeping of _construct_related_types)?"""
    if r[0] == 'c' and t[0] == 'c' and r[1] == t[1] and r[1] in T.classes and len(r[2]) == len(t[2]):
        params = T.classes[r[1]][0]
        bases = set()
        for p in params:
            if p[2] is not None:
                bases |= terms.free_vars(p[2])
        for p in params:
            if p[2] is not None and p[2][0] == 'v':
                bases.add(p[0])                       # the dependent parameter itself
        failing = []
        for a, b, p in zip(r[2], t[2], params):
            try:
                okc = terms.contained(a, b, p[1], T)
            except (terms.Unknown, RecursionError):
                okc = True
            if not okc:
                failing.append(p)
        if any(p[0] in bases for p in failing):
            # variance of the parameter(s) other parameters' bounds depend on
            dep = set()
            for p in params:
                if p[2] is not None:
                    dep |= terms.free_vars(p[2])
            bv = sorted({('inv', 'cov', 'con')[p[1]] for p in params if p[0] in dep})
            return 'dependent-parameters:base-' + '+'.join(bv)
        return 'argument[' + ','.join(sorted({('inv', 'cov', 'con')[p[1]] for p in failing})) + ']'
    return '%s/%s' % (kind_of(r, T), kind_of(t, T))


def judge_find_subtypes(rec, T, out, witness):
    t, res = rec['etype'], rec['result']
    w = dict(witness, etype=terms.term_str(t), include_self=rec['include_self'],
             concrete_only=rec['concrete_only'], result=[terms.term_str(r) for r in res][:12],
             etype_term=t)
    shape = ('fs', terms.shape(t), rec['include_self'], rec['concrete_only'], len(res) > 1)
    bad = False
    out.ev('find_subtypes-results', len(res))
    for r in res:
        if r[0] == 'tc':
            if rec['concrete_only']:
                bad = True
                out.violation({'rule': 'bare-constructor-returned', 'api': 'find_subtypes'},
                              'find_subtypes(%s, concrete_only=True) returned the uninstantiated class %s' % (
                                  terms.term_str(t), r[1]), w, shape)
            else:
                out.skip('bare-constructor-not-concrete-only')
            continue
        if r == t:
            continue
        ok = terms.refsub3(r, t, T)
        if ok is False:
            bad = True
            out.violation({'rule': 'result-not-subtype', 'api': 'find_subtypes',
                           'cause': subtype_cause(r, t, T)},
                          'find_subtypes(%s) returned %s which is not a subtype' % (
                              terms.term_str(t), terms.term_str(r)), w, shape)
        elif ok is None:
            out.skip('oracle-unknown')
    has_self = t in res
    if has_self != bool(rec['include_self']):
        bad = True
        out.violation({'rule': 'include-self', 'api': 'find_subtypes', 'include_self': bool(rec['include_self'])},
                      'find_subtypes(%s, include_self=%s) %s the type itself' % (
                          terms.term_str(t), rec['include_self'], 'contains' if has_self else 'lacks'), w, shape)
    if not bad:
        out.ok(shape, nontrivial=len(res) > (1 if rec['include_self'] else 0))


def related_without_variance(r, t, T):
    """Are r and t related by plain inheritance alone, i.e. also when every
    parameter is treated as invariant and projections only match themselves?"""
    T2 = terms.Table(top=None)
    T2.builtins = T.builtins
    T2.kinds = T.kinds
    T2.classes = {n: ([(p[0], terms.INV, p[2]) for p in ps], sups) for n, (ps, sups) in T.classes.items()}

    def rigid(x):
        if x[0] == 'w':
            return ('c', '<proj%d>' % x[1], (rigid(x[2]),) if x[2] is not None else ())
        if x[0] == 'c':
            return ('c', x[1], tuple(rigid(a) for a in x[2]))
        return x
    try:
        return bool(terms.refsub(rigid(r), rigid(t), T2) or terms.refsub(rigid(t), rigid(r), T2))
    except (terms.Unknown, RecursionError, KeyError):
        return True


def judge_irrelevant(rec, T, out, witness):
    t, r = rec['etype'], rec['result']
    w = dict(witness, etype=terms.term_str(t), result=None if r is None else terms.term_str(r), etype_term=t)
    shape = ('fi', terms.shape(t), r is not None)
    if terms.is_top(t, T):
        out.ev('irrelevant:top-queries')
        if r is not None:
            out.violation({'rule': 'irrelevant-for-top', 'api': 'find_irrelevant_type'},
                          'find_irrelevant_type(top type) returned %s' % terms.term_str(r), w, shape)
        else:
            out.ok(shape, False)
        return
    if r is None:
        out.ev('irrelevant:none')
        out.ok(shape, False)
        return
    out.ev('irrelevant:results')
    tt = t
    if t[0] == 'v':
        if t[3] is None:
            out.skip('unbounded-type-variable')      # everything is unrelated to nothing known
            return
        tt = t[3]
        if terms.is_top(tt, T):
            out.skip('type-variable-bounded-by-top')     # as good as unbounded
            return
    if r[0] in terms.UNJUDGED_KINDS or tt[0] in terms.UNJUDGED_KINDS:
        out.skip('unjudgeable-kind')
        return
    a, b = terms.refsub3(r, tt, T), terms.refsub3(tt, r, T)
    if (a or b) and rec.get('result_prim_arg'):
        # terms identify a primitive with its box (Builtin.__eq__ is by class); an instantiation with a
        # PRIMITIVE type argument (B<int>) is related to nothing in the IR's own relation, and whether it
        # is a type at all is not what this property states: not judged, counted
        out.skip('result-has-primitive-type-argument')
        return
    if a or b:
        top, T.top = T.top, None
        try:
            a0, b0 = terms.refsub3(r, tt, T), terms.refsub3(tt, r, T)
        finally:
            T.top = top
        if terms.is_top(r, T):
            cause = 'top'
        elif not (a0 or b0):
            cause = 'only-through-implicit-top'
        elif r == tt:
            cause = 'returned-the-query-itself'
        elif r[0] == 'c' and r[2]:
            cause = 'same-class-other-arguments' if (tt[0] == 'c' and tt[1] == r[1]) else 'other-generic-class'
            cause += ':plain' if related_without_variance(r, tt, T) else ':through-variance'
        else:
            cause = kind_of(r, T)
        out.violation({'rule': 'irrelevant-is-related', 'api': 'find_irrelevant_type',
                       'relation': 'subtype' if a else 'supertype', 'cause': cause,
                       'query': ('type-variable-bounded-by-variable' if t[3][0] == 'v' else 'type-variable')
                       if t[0] == 'v' else kind_of(t, T)},
                      'find_irrelevant_type(%s) returned %s, which is a %s' % (
                          terms.term_str(t), terms.term_str(r), 'subtype' if a else 'supertype'), w, shape)
    elif a is None or b is None:
        out.skip('oracle-unknown')
    else:
        out.ok(shape, True)


class Core:
    def __init__(self, out):
        from src.ir import type_utils as tu
        self.tu = tu
        self.out = out
        self.depth = 0
        self.records = []
        core = self
        f1 = tu.find_subtypes

        def find_subtypes(etype, types, include_self=False, bound=None, concrete_only=False,
                          ignore_variance=False):
            core.depth += 1
            try:
                r = f1(etype, types, include_self, bound, concrete_only, ignore_variance)
            except BaseException:
                core.depth -= 1
                core.out.ev('raised:find_subtypes')
                raise
            core.depth -= 1
            if core.depth == 0:
                core.out.ev('calls:find_subtypes')
                try:
                    core.records.append({'api': 'fs', 'etype': terms.to_term(etype),
                                         'result': [terms.to_term(x) for x in r],
                                         'include_self': bool(include_self), 'concrete_only': bool(concrete_only),
                                         'objs': [etype] + list(r)})
                except Exception as e:
                    core.out.skip('monitor-failed:' + type(e).__name__)
            return r
        tu.find_subtypes = find_subtypes
        f2 = tu.find_irrelevant_type

        def find_irrelevant_type(etype, types, factory):
            core.depth += 1
            try:
                r = f2(etype, types, factory)
            except BaseException:
                core.depth -= 1
                core.out.ev('raised:find_irrelevant_type')
                raise
            core.depth -= 1
            if core.depth == 0:
                core.out.ev('calls:find_irrelevant_type')
                try:
                    core.records.append({'api': 'fi', 'etype': terms.to_term(etype),
                                         'result': None if r is None else terms.to_term(r),
                                         'result_prim_arg': bool(r is not None and getattr(r, 'type_args', None)
                                                                 and terms.mentions_primitive(r)),
                                         'objs': [etype] + ([r] if r is not None else [])})
                except Exception as e:
                    core.out.skip('monitor-failed:' + type(e).__name__)
            return r
        tu.find_irrelevant_type = find_irrelevant_type

    def judge_all(self, T, witness, scan=False):
        for rec in self.records:
            if scan:
                for o in rec['objs']:
                    T.scan(o)
            if rec['api'] == 'fs':
                judge_find_subtypes(rec, T, self.out, witness)
            else:
                judge_irrelevant(rec, T, self.out, witness)
        self.records = []


def cell_typelab(cell):
    from vf import boot, typelab
    boot.light()
    from src.ir import type_utils as tu
    from src import utils
    out = common.CellOut()
    core = Core(out)
    rng = random.Random(cell['rseed'])
    lang = cell['lang']
    if cell['family'] == 'small':
        specs = typelab.small_family(lang)[cell['lo']:cell['hi']]
    else:
        specs = [typelab.random_spec(lang, random.Random(common.h32(cell['rseed'], i)))
                 for i in range(cell['count'])]
    for spec in specs:
        lab = typelab.Lab(spec)
        out.ev('tables')
        U = lab.ground_terms(cell.get('depth', 1), projections='domain', cap=cell.get('cap', 30), rng=rng,
                             with_top=True)
        U = [x for x in U if lab.within_bounds(x)]
        # the `types` pool as the generator passes it: class declarations + builtins
        pool = list(lab.decls.values()) + list(lab.f.get_non_nothing_types())
        pool_types = [d.get_type() for d in lab.decls.values()] + list(lab.f.get_non_nothing_types())
        queries = rng.sample(U, min(len(U), cell.get('queries', 25)))
        for q in queries:
            try:
                rq = lab.real(q)
            except Exception:
                continue
            for rs in range(cell.get('rng_seeds', 4)):
                utils.random.r.seed(common.h32(cell['rseed'], 'q', rs))
                inc = bool(rs % 2)
                conc = rs % 4 < 2
                try:
                    tu.find_subtypes(rq, pool, include_self=inc, concrete_only=conc)
                except Exception as e:
                    out.skip('find_subtypes-raised:' + type(e).__name__)
                try:
                    tu.find_irrelevant_type(rq, pool_types, lab.f)
                except Exception as e:
                    out.skip('find_irrelevant-raised:' + type(e).__name__)
            core.judge_all(lab.T, {'spec': spec})
        # type-variable queries for the irrelevant search
        for c in spec['classes']:
            for p in lab.tparams.get(c['name'], {}).values():
                utils.random.r.seed(common.h32(cell['rseed'], 'tv', c['name']))
                try:
                    tu.find_irrelevant_type(p, pool_types, lab.f)
                except Exception as e:
                    out.skip('find_irrelevant-raised:' + type(e).__name__)
        core.judge_all(lab.T, {'spec': spec})
        if len(out.samples) < 2 and queries:
            q = queries[0]
            utils.random.r.seed(1)
            try:
                out.sample({'query': terms.term_str(q),
                            'subtypes': [terms.term_str(terms.to_term(x)) for x in
                                         tu.find_subtypes(lab.real(q), pool, include_self=False, concrete_only=True)][:8],
                            'irrelevant': str(tu.find_irrelevant_type(lab.real(q), pool_types, lab.f))})
            except Exception:
                pass
            core.records = []
    return out.result()


def cell_replay(cell):
    """Re-build the witness's class table from its spec and repeat the query (the witness's type, both
    searches, both pools) under 400 RNG seeds; the same judges decide."""
    from vf import boot, typelab
    boot.light()
    from src.ir import type_utils as tu
    from src import utils
    out = common.CellOut()
    core = Core(out)
    w = cell['witness']

    def tup(x):
        return tuple(tup(i) for i in x) if isinstance(x, list) else x
    if 'spec' not in w or 'etype_term' not in w:
        out.info['note'] = 'witness has no spec/etype_term: re-run the check with the same VERIF_SEED'
        return out.result()
    lab = typelab.Lab(w['spec'])
    rq = lab.real(tup(w['etype_term']))
    pool = list(lab.decls.values()) + list(lab.f.get_non_nothing_types())
    pool_types = [d.get_type() for d in lab.decls.values()] + list(lab.f.get_non_nothing_types())
    for rs in range(400):
        utils.random.r.seed(rs)
        try:
            tu.find_subtypes(rq, pool, include_self=bool(rs % 2), concrete_only=rs % 4 < 2)
        except Exception:
            pass
        try:
            tu.find_irrelevant_type(rq, pool_types, lab.f)
        except Exception:
            pass
        core.judge_all(lab.T, {'spec': w['spec']})
    out.info['note'] = 'query repeated under 400 RNG seeds'
    return out.result()


class Monitor:
    def __init__(self, out, cell):
        self.out = out
        self.core = Core(out)

    def case_begin(self, case):
        self.case = case
        self.core.records = []
        self.program = None

    def after_generate(self, program):
        self.program = program

    def case_end(self, case):
        if self.program is None:
            self.core.records = []
            return
        T = terms.Table.from_program(self.program)
        self.core.judge_all(T, {'case': case.ident()}, scan=True)


def lab_cells(tier, seed):
    from vf.boot import LANGS
    cells = []
    q = tier == 'quick'
    for lang in (['kotlin', 'java'] if q else LANGS):
        for lo in range(0, 90, 15 if q else 6):
            cells.append({'family': 'small', 'lang': lang, 'lo': lo, 'hi': lo + (15 if q else 6),
                          'rseed': common.h32(seed, 'c09s', lang, lo), 'queries': 12 if q else 60,
                          'rng_seeds': 4 if q else 20, 'cap': 30})
    for i in range(12 if q else 64):
        cells.append({'family': 'random', 'lang': LANGS[i % 4], 'count': 3 if q else 8,
                      'rseed': common.h32(seed, 'c09r', i), 'queries': 25 if q else 80,
                      'rng_seeds': 4 if q else 20, 'cap': 30})
    return cells


def pipeline_plan(tier, seed):
    from vf.boot import LANGS
    n = 8 if tier == 'quick' else 150
    return [{'lang': lang, 'n': n, 'chunk': 4 if tier == 'quick' else 15} for lang in LANGS]


def finish(agg, tier, lab_events):
    q = tier == 'quick'
    agg.floor('calls:find_subtypes', 8000 if q else 200000)
    agg.floor('calls:find_irrelevant_type', 5000 if q else 150000)
    agg.floor('find_subtypes-results', 15000 if q else 400000)
    agg.floor('irrelevant:results', 2000 if q else 60000)
    return agg.finish(
        rule='typelab: query types (generic with bounded/dependent parameters and projections, top type, type '
             'variables) x RNG seeds x include_self/concrete_only over the small family and random tables, with the '
             'pool of class declarations + builtins the generator passes; pipeline: every outermost call of real '
             'generation and type-overwriting runs. judged = calls; distinct non-trivial = distinct (api, query '
             'shape, flags) that returned something beyond the query itself',
        assumptions=['an unbounded type variable has no relatives: its irrelevant-type answers are not judged'])
