"""C12 — translations are faithful to the program's declarations and annotations.

The emitted text (own-language translator, every stage) is scanned by small
per-language tokenisers and compared with an inventory computed from the IR:
  N  every declared class / function / field / parameter / type parameter /
     local variable appears in a declaration head of its kind; for Kotlin and
     Scala the NUMBER of class, function and val/var heads equals the IR's
  H  class heads: kind keyword, variance markers and bound names of type
     parameters, superclass names; `override` on overriding functions
  A  annotations: a local variable's declared type / a function's return type /
     a constructor call's type arguments are printed iff the program carries
     them, for the annotation kinds the language can omit (Kotlin, Scala: all
     three; Groovy: `def` variables and `new X<>`; Java: `new X<>`); where the
     language cannot omit, the printed type's head is the recorded type's head
  L  every literal of the program appears in the text (multiset containment)
  B  brackets and quotes are balanced outside literals."""
import re

from vf import irwalk, terms, common

KW = {
    'kotlin': {'class': r'(?:class|interface)', 'fun': r'fun', 'var': r'(?:val|var)'},
    'scala': {'class': r'(?:class|trait)', 'fun': r'def', 'var': r'(?:val|var)'},
}


def strip_literals(text):
    """Text with string and char literals blanked (same length)."""
    out = []
    i, n = 0, len(text)
    while i < n:
        c = text[i]
        if c == '"':
            j = i + 1
            while j < n and text[j] != '"':
                j += 2 if text[j] == '\\' else 1
            out.append('"' + ' ' * (min(j, n - 1) - i - 1) + '"')
            i = j + 1
        elif c == "'" and i + 2 < n and text[i + 2] == "'":
            out.append("' '")
            i += 3
        elif c == "'" and i + 3 < n and text[i + 1] == '\\' and text[i + 3] == "'":
            out.append("'  '")
            i += 4
        else:
            out.append(c)
            i += 1
    return ''.join(out)


def balanced(code):
    stack = []
    pairs = {')': '(', ']': '[', '}': '{'}
    for ch in code:
        if ch in '([{':
            stack.append(ch)
        elif ch in ')]}':
            if not stack or stack.pop() != pairs[ch]:
                return False
    return not stack


def generic_calls(code, name, open_b='<', close_b='>'):
    """Positions where `Name<balanced>(` occurs (not preceded by a word char or dot)."""
    res = []
    for m in re.finditer(r'(?<![\w])%s%s' % (re.escape(name), re.escape(open_b)), code):
        j = m.end()
        depth = 1
        while j < len(code) and depth and code[j] not in '(){};\n':
            if code[j] == open_b:
                depth += 1
            elif code[j] == close_b:
                depth -= 1
            j += 1
        if depth == 0 and j < len(code) and code[j] == '(':
            res.append(m.start())
    return res


def ident(name, lang):
    n = re.escape(str(name))
    if lang == 'scala':
        return r'(?:`%s`|\b%s\b)' % (n, n)
    return r'\b%s\b' % n


def type_head(t, lang):
    """Acceptable printed head names of a recorded type (own tables)."""
    from src.ir import types as tp
    if t is None:
        return None
    if isinstance(t, tp.WildCardType):
        return None
    if isinstance(t, tp.TypeParameter):
        return [str(t.name)]
    name = str(t.name)
    prim = bool(getattr(t, 'primitive', False))
    cls = type(t).__name__
    tc = getattr(t, 't_constructor', None)
    if tc is not None and str(tc.name) == 'Array':
        return None                      # arrays print as T[] / XArray / Array[T]
    java = {'IntegerType': ['Integer', 'int'], 'ShortType': ['Short', 'short'], 'LongType': ['Long', 'long'],
            'ByteType': ['Byte', 'byte'], 'FloatType': ['Float', 'float'], 'DoubleType': ['Double', 'double'],
            'CharType': ['Character', 'char'], 'BooleanType': ['Boolean', 'boolean'], 'VoidType': ['void', 'Void'],
            'BigDecimalType': ['BigDecimal'], 'BigIntegerType': ['BigInteger']}
    if isinstance(t, tp.Builtin) and lang in ('java', 'groovy') and cls in java:
        return java[cls]
    return [name]


class Monitor:
    def __init__(self, out, cell):
        self.out = out
        self.cell = cell
        self.lang = cell['lang']

    def case_begin(self, case):
        self.case = case

    def _viol(self, rule, msg, stage, extra=None, **mech):
        w = {'case': self.case.ident(), 'stage': stage}
        if extra:
            w.update(extra)
        m = {'rule': rule, 'lang': self.lang}
        m.update(mech)
        self.nbad += 1
        self.out.violation(m, msg, w)

    def translated(self, stage, program, translator, text, pkg):
        from src.ir import ast, types as tp
        out = self.out
        lang = self.lang
        self.nbad = 0
        code = strip_literals(text)
        out.ev('texts')
        # B ---------------------------------------------------------------
        if not balanced(code):
            self._viol('B-unbalanced', 'brackets are not balanced', stage)
        if len(code) != len(text):
            self._viol('B-quotes', 'unterminated literal', stage)
        # inventory -------------------------------------------------------
        classes, funcs, lvars, fields, params, news, calls, lits = [], [], [], [], [], [], [], []
        for node, anc in irwalk.iter_nodes(program):
            if isinstance(node, ast.ClassDeclaration):
                classes.append(node)
            elif isinstance(node, ast.FunctionDeclaration):
                funcs.append((node, anc))
            elif isinstance(node, ast.VariableDeclaration):
                lvars.append((node, anc))
            elif isinstance(node, ast.FieldDeclaration):
                fields.append(node)
            elif isinstance(node, ast.ParameterDeclaration):
                params.append((node, anc))
            elif isinstance(node, ast.New):
                news.append(node)
            elif isinstance(node, ast.FunctionCall):
                calls.append(node)
            elif isinstance(node, (ast.StringConstant, ast.CharConstant, ast.IntegerConstant, ast.RealConstant)):
                lits.append(node)
        # N: names in declaration heads -----------------------------------
        for c in classes:
            out.ev('decls-checked')
            if not re.search(r'\b(?:class|interface|trait)\s+%s' % ident(c.name, lang), code):
                self._viol('N-class-missing', 'class %s has no declaration head in the text' % c.name, stage,
                           kind='class')
        fun_pos = {}          # id(function node) -> match object of ITS head (k-th head of that name)
        by_name = {}
        for f, anc in funcs:
            by_name.setdefault(str(f.name), []).append((f, anc))
        for name, lst in by_name.items():
            nm = ident(name, lang)
            if lang in KW:
                pat = r'([^\n]*)\b%s\s+(?:<[^(]*>\s*)?%s\s*(?=[(\[])' % (KW[lang]['fun'], nm)
            else:
                # methods `Type name(`; nested functions are printed as lambdas `FunctionN<..> name = (..) ->`
                pat = r'([^\n]*[\w>\]])\s+%s\s*(?=\(|=\s*\(|=\s*\{)' % nm
            heads = list(re.finditer(pat, code))
            if lang not in KW:
                heads = [h for h in heads if not re.search(r'\b(?:return|new|else)\s*$', h.group(1))]
            for f, anc in lst:
                out.ev('decls-checked')
            if len(heads) < len(lst):
                self._viol('N-function-missing', 'function %s: %d declarations in the program, %d heads in the text' % (
                    name, len(lst), len(heads)), stage, kind='function')
                continue
            if lang in KW and len(heads) != len(lst):
                self._viol('N-function-count', 'function %s: %d declarations in the program, %d heads in the text' % (
                    name, len(lst), len(heads)), stage)
                continue
            for (f, anc), h in zip(lst, heads):
                fun_pos[id(f)] = h
                if f.override and lang in KW and not re.search(r'\boverride\b', h.group(1)):
                    self._viol('H-override-missing', 'overriding function %s lacks `override`: %r' % (
                        f.name, h.group(0).strip()[:80]), stage)
                if (not f.override) and lang in KW and re.search(r'\boverride\b', h.group(1)):
                    self._viol('H-override-spurious', 'function %s is not an override but is printed as one' % f.name,
                               stage)
                for tpar in f.type_parameters:
                    if not re.search(ident(tpar.name, lang), code):
                        self._viol('N-type-parameter-missing', 'type parameter %s of %s is not in the text' % (
                            tpar.name, f.name), stage, kind='fun-tparam')
        for v, anc in lvars:
            out.ev('decls-checked')
            is_global = not any(isinstance(a, (ast.FunctionDeclaration, ast.Lambda)) for a in anc)
            nm = ident(v.name, lang)
            if lang in KW:
                head = re.search(r'\b%s\s+%s\s*(:|=)' % (KW[lang]['var'], nm), code)
            elif lang == 'groovy':
                head = re.search(r'(?:\bdef|[\w>\]])\s+%s\s*=' % nm, code)
            else:
                head = re.search(r'[\w>\]]\s+%s\s*=' % nm, code)
            if not head:
                self._viol('N-variable-missing', 'variable %s has no declaration head' % v.name, stage,
                           kind='variable')
                continue
            # A: annotation iff (kinds the language can omit), locals only
            out.ev('annotations-checked')
            if lang in KW:
                annotated = head.group(1) == ':'
                if annotated != (v.var_type is not None):
                    self._viol('A-variable-annotation',
                               'variable %s: declared type %s but the text %s an annotation' % (
                                   v.name, 'present' if v.var_type is not None else 'absent',
                                   'has' if annotated else 'lacks'), stage,
                               expected=v.var_type is not None)
            elif lang == 'groovy' and not is_global:
                is_def = bool(re.search(r'\bdef\s+%s\s*=' % nm, code))
                if is_def != (v.var_type is None):
                    self._viol('A-variable-annotation',
                               'variable %s: declared type %s but the text uses %s' % (
                                   v.name, 'present' if v.var_type is not None else 'absent',
                                   '`def`' if is_def else 'an explicit type'), stage,
                               expected=v.var_type is not None)
            # printed type head where a type must be printed
            must = (v.var_type if lang in KW or lang == 'groovy' else v.inferred_type)
            if lang == 'groovy' and is_global:
                must = v.inferred_type
            heads = type_head(must, lang) if must is not None else None
            if heads:
                if lang in KW:
                    ok = re.search(r'\b%s\s+%s\s*:\s*(?:%s)\b' % (
                        KW[lang]['var'], nm, '|'.join(re.escape(h) for h in heads)), code)
                else:
                    ok = re.search(r'\b(?:%s)(?:\s*<[^=;]*>)?(?:\[\])*\s+%s\s*=' % (
                        '|'.join(re.escape(h) for h in heads), nm), code)
                out.ev('printed-types-checked')
                if not ok:
                    self._viol('A-printed-type', 'variable %s should be printed with type %s' % (
                        v.name, heads), stage, kind='variable')
        for f in fields:
            out.ev('decls-checked')
            if not re.search(ident(f.name, lang), code):
                self._viol('N-field-missing', 'field %s is not in the text' % f.name, stage, kind='field')
        for p, anc in params:
            out.ev('decls-checked')
            nm = ident(p.name, lang)
            pat = (r'%s\s*:' % nm) if lang in KW else (r'[\w>\]\.]\s+%s\s*[,)=]' % nm)
            if not re.search(pat, code) and not (lang not in KW and re.search(
                    r'(?:[(,]\s*%s\s*[,)])|(?:\b%s\s*->)' % (nm, nm), code)):
                self._viol('N-parameter-missing', 'parameter %s has no declaration' % p.name, stage, kind='parameter')
        # function return type annotation (Kotlin / Scala)
        if lang in KW:
            for f, anc in funcs:
                m = fun_pos.get(id(f))
                if not m:
                    continue
                i = m.end()
                # skip the parameter list(s)
                depth = 0
                j = i
                while j < len(code) and code[j] in '([':
                    depth = 0
                    while j < len(code):
                        if code[j] in '([':
                            depth += 1
                        elif code[j] in ')]':
                            depth -= 1
                            if depth == 0:
                                j += 1
                                break
                        j += 1
                rest = code[j:j + 3].lstrip()
                annotated = rest.startswith(':')
                out.ev('annotations-checked')
                if annotated != (f.ret_type is not None):
                    self._viol('A-return-annotation',
                               'function %s: return type %s but the text %s an annotation' % (
                                   f.name, 'present' if f.ret_type is not None else 'absent',
                                   'has' if annotated else 'lacks'), stage, expected=f.ret_type is not None)
        # Groovy: a nested function is a closure variable; `def` iff its return type was omitted
        if lang == 'groovy':
            for f, anc in funcs:
                if not any(isinstance(a, (ast.FunctionDeclaration, ast.Lambda)) for a in anc):
                    continue
                nm = ident(f.name, lang)
                heads = re.findall(r'(\bdef|[\w>\]])\s+%s\s*=\s*\{' % nm, code)
                if len(heads) != 1:
                    continue
                out.ev('annotations-checked')
                is_def = heads[0] == 'def'
                if f.ret_type is not None and type(f.ret_type).__name__ == 'VoidType':
                    continue            # a closure without a result is declared with `def` either way
                if is_def != (f.ret_type is None):
                    self._viol('A-return-annotation',
                               'nested function %s: return type %s but the closure is declared with %s' % (
                                   f.name, 'present' if f.ret_type is not None else 'absent',
                                   '`def`' if is_def else 'an explicit Closure type'), stage,
                               expected=f.ret_type is not None)
        # Kotlin / Scala: explicit type arguments of generic calls are printed iff the program carries them
        if lang in KW:
            by_fn = {}
            for c in calls:
                if c.is_ref_call:
                    continue
                d = by_fn.setdefault(str(c.func), [0, 0])
                d[0 if (c.type_args and not c.can_infer_type_args) else 1] += 1
            decl_generic = {}
            for f, anc in funcs:
                if f.type_parameters:
                    decl_generic[str(f.name)] = decl_generic.get(str(f.name), 0) + 1
            ob, cb = ('<', '>') if lang == 'kotlin' else ('[', ']')
            for name, (n_exp, n_inf) in by_fn.items():
                if not n_exp and name not in decl_generic:
                    continue
                exp = len(generic_calls(code.replace('`', ''), name, ob, cb)) if True else 0
                if lang == 'scala':
                    exp -= decl_generic.get(name, 0)
                out.ev('generic-calls-checked', n_exp)
                if exp != n_exp:
                    self._viol('A-call-type-arguments',
                               'function %s: %d calls carry explicit type arguments in the program, %d in the text' % (
                                   name, n_exp, exp), stage)
        # counts (Kotlin / Scala): heads of each kind
        if lang in KW:
            n_cls = len(re.findall(r'\b%s\s+[`\w]' % KW[lang]['class'], code))
            n_fun = len(re.findall(r'\b%s\s+(?:<[^(]*>\s*)?[`\w]+\s*[(\[]' % KW[lang]['fun'], code))
            out.ev('count-comparisons', 2)
            if lang == 'kotlin':
                n_fun -= len(re.findall(r'\bfun\s+interface\b', code))
            if n_cls != len(classes):
                self._viol('N-class-count', '%d class heads in the text, %d classes in the program' % (
                    n_cls, len(classes)), stage)
            if n_fun != len(funcs):
                self._viol('N-function-count', '%d function heads in the text, %d functions in the program' % (
                    n_fun, len(funcs)), stage)
        # H: class heads ------------------------------------------------------
        for c in classes:
            m = re.search(r'[^\n]*\b(?:class|interface|trait)\s+%s[^\n{]*' % ident(c.name, lang), code)
            if not m:
                continue
            head = m.group(0)
            out.ev('class-heads-checked')
            if c.class_type == ast.ClassDeclaration.ABSTRACT and 'abstract' not in head:
                self._viol('H-abstract-missing', 'abstract class %s lacks `abstract`' % c.name, stage)
            if lang in ('java', 'groovy') and c.class_type == ast.ClassDeclaration.REGULAR:
                if bool(c.is_final) != bool(re.search(r'\bfinal\b', head)):
                    self._viol('H-final', 'class %s: is_final=%s but head is %r' % (c.name, c.is_final, head.strip()[:80]),
                               stage)
            if lang == 'kotlin' and c.class_type == ast.ClassDeclaration.REGULAR:
                if bool(c.is_final) == bool(re.search(r'\bopen\b', head)):
                    self._viol('H-final', 'class %s: is_final=%s but head is %r' % (c.name, c.is_final, head.strip()[:80]),
                               stage)
            for tpar in c.type_parameters:
                v = terms.var_of(tpar.variance)
                nm = re.escape(str(tpar.name))
                if lang == 'kotlin':
                    pat = {0: r'[<,]\s*%s\b', 1: r'\bout\s+%s\b', 2: r'\bin\s+%s\b'}[v] % nm
                elif lang == 'scala':
                    pat = {0: r'[\[,]\s*%s\b', 1: r'\+%s\b', 2: r'-%s\b'}[v] % nm
                else:
                    pat = r'[<,]\s*%s\b' % nm
                if not re.search(pat, head):
                    self._viol('H-type-parameter', 'class %s: type parameter %s (variance %d) not declared so in %r' % (
                        c.name, tpar.name, v, head.strip()[:100]), stage)
                bh = type_head(tpar.bound, lang)
                if bh and not re.search(r'\b%s\b[^,>\]]*\b(?:%s)\b' % (nm, '|'.join(re.escape(h) for h in bh)), head):
                    self._viol('H-bound-missing', 'class %s: bound %s of %s is not in the head' % (
                        c.name, bh, tpar.name), stage)
            for s in c.superclasses:
                if not re.search(r'\b%s\b' % re.escape(str(s.class_type.name)), head):
                    self._viol('H-superclass-missing', 'class %s: superclass %s is not in the head' % (
                        c.name, s.class_type.name), stage)
        # A: constructor type arguments ---------------------------------------
        by_cls = {}
        for nw in news:
            ct = nw.class_type
            if not isinstance(ct, tp.ParameterizedType) or isinstance(ct.t_constructor, tp.Builtin):
                continue
            d = by_cls.setdefault(str(ct.name), [0, 0])
            d[1 if ct.can_infer_type_args else 0] += 1
        sup_by_cls = {}
        for c in classes:
            for s in c.superclasses:
                if isinstance(s.class_type, tp.ParameterizedType) and s.args is not None:
                    sup_by_cls[str(s.class_type.name)] = sup_by_cls.get(str(s.class_type.name), 0) + 1
        for name, (n_explicit, n_inferred) in by_cls.items():
            nm = re.escape(name)
            if lang == 'kotlin':
                pos = generic_calls(code, name)
                exp = len([i for i in pos if not re.search(r'\b(?:class|interface)\s+$', code[max(0, i - 12):i])])
                exp -= sup_by_cls.get(name, 0)
                inf = len([m for m in re.finditer(r'(?<![\w.])%s\(' % nm, code)
                           if not re.search(r'\b(?:class|interface)\s+$', code[max(0, m.start() - 12):m.start()])])
            elif lang == 'scala':
                exp = len(re.findall(r'\bnew\s+%s\[' % nm, code))
                inf = len(re.findall(r'\bnew\s+%s\(' % nm, code))
            else:
                exp = len(re.findall(r'\bnew\s+%s<[^>]' % nm, code))
                inf = len(re.findall(r'\bnew\s+%s<>' % nm, code))
            out.ev('constructor-calls-checked', n_explicit + n_inferred)
            if (exp, inf) != (n_explicit, n_inferred):
                self._viol('A-constructor-type-arguments',
                           'class %s: program has %d calls with explicit and %d with inferable type arguments, '
                           'text has %d / %d' % (name, n_explicit, n_inferred, exp, inf), stage)
        # L: literals ---------------------------------------------------------
        want = {}
        for l in lits:
            if isinstance(l, ast.StringConstant):
                k = '"%s"' % l.literal
            elif isinstance(l, ast.CharConstant):
                k = "'%s'" % l.literal
            else:
                k = str(l.literal).lstrip('-')
            want[k] = want.get(k, 0) + 1
        for k, n in want.items():
            out.ev('literals-checked')
            have = text.count(k) if k[0] in '"\'' else len(re.findall(r'(?<![\w.])%s(?![\w])' % re.escape(k), text)) \
                or text.count(k)
            if have < n:
                self._viol('L-literal-missing', 'literal %s occurs %d times in the program but %d in the text' % (
                    k, n, have), stage)
        if not self.nbad:
            out.ok(('text', lang, stage.rstrip('0123456789'), common.shape_hash(text)), nontrivial=len(text) > 400)
        if len(out.samples) < 2:
            out.sample({'case': self.case.ident(), 'stage': stage, 'classes': len(classes), 'functions': len(funcs),
                        'variables': len(lvars), 'constructor_calls': {k: v for k, v in list(by_cls.items())[:4]},
                        'literals': len(lits)})


CELL_TIMEOUT = 1500


def plan(tier, seed):
    from vf.boot import LANGS, SWITCHES
    p = []
    q = tier == 'quick'
    for lang in LANGS:
        p.append({'lang': lang, 'n': 30 if q else 250, 'chunk': 10 if q else 25})
        if not q:
            p.append({'lang': lang, 'n': 50, 'chunk': 25, 'switches': [SWITCHES[0]], 'tag': 'nousv'})
            p.append({'lang': lang, 'n': 30, 'chunk': 15, 'max_depth': 7})
    return p


def finish(agg, tier):
    q = tier == 'quick'
    agg.floor('texts', 350 if q else 4000)
    agg.floor('decls-checked', 20000 if q else 250000)
    agg.floor('annotations-checked', 4000 if q else 50000)
    agg.floor('class-heads-checked', 1500 if q else 20000)
    agg.floor('constructor-calls-checked', 800 if q else 10000)
    agg.floor('literals-checked', 3000 if q else 40000)
    return agg.finish(
        rule='judged = (program, stage) texts of the own-language translator (generated, erased, overwritten) scanned '
             'for declaration heads, class heads, omittable annotations, constructor type arguments, literals and '
             'balance and compared with the IR inventory; distinct non-trivial = distinct texts > 400 bytes',
        assumptions=['scanners are regular-expression tokenisers over the text with literals blanked, not parsers',
                     'modifiers are checked only where the language semantics fixes them (abstract, final/open of '
                     'regular classes in Java/Groovy/Kotlin, override in Kotlin/Scala)'])
