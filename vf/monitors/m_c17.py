"""C17 — generation switches are honoured.

Absence predicates over a total walk of every recorded type and declaration of
the generated program (irwalk.type_slots / walk_type; derived `supertypes` are
not followed):
  USV     --disable-use-site-variance      -> no in/out projection in a type-argument position
  CONTRA  --disable-contravariance-use-site -> no `in` projection in a type-argument position
  BOUND   --disable-bounded-type-parameters -> no type parameter (declared or occurring) has a bound
  PFUN    --disable-parameterized-functions -> no function declares type parameters
  DECLVAR java/groovy: class type parameters are invariant
  FUNVAR  every language: function type parameters are invariant
A violation's mechanism records WHERE the offending type sits (slot kind and
the chain of positions leading to it), so that a known mechanism (projections
manufactured inside type-parameter bounds) does not hide any other."""
from vf import irwalk, terms

SW = {'USV': '--disable-use-site-variance', 'CONTRA': '--disable-contravariance-use-site',
      'BOUND': '--disable-bounded-type-parameters', 'PFUN': '--disable-parameterized-functions'}


def _walk(t, fn, chain, depth=0):
    """fn(type, chain) for t and everything nested; chain = tuple of positions
    from the slot root: targ / wbound / vbound."""
    from src.ir import types as tp
    if t is None or depth > 20 or not isinstance(t, tp.Type):
        return
    fn(t, chain)
    if isinstance(t, tp.ParameterizedType):
        for a in t.type_args:
            _walk(a, fn, chain + ('targ',), depth + 1)
    elif isinstance(t, tp.WildCardType):
        _walk(t.bound, fn, chain + ('wbound',), depth + 1)
    elif isinstance(t, tp.TypeParameter):
        _walk(t.bound, fn, chain + ('vbound',), depth + 1)


class Monitor:
    def __init__(self, out, cell):
        self.out = out
        self.cell = cell
        self.sw = set(cell.get('switches', ()))
        self.lang = cell['lang']

    def case_begin(self, case):
        self.case = case

    def after_generate(self, program):
        from src.ir import ast, types as tp
        out = self.out
        sw = self.sw
        found = []            # (rule, mech-extras, message)
        counts = {'types': 0, 'proj': 0, 'contra': 0, 'star': 0, 'bounded': 0, 'pfun': 0, 'variant_decl': 0}

        def on_type(slot_kind, owner):
            def fn(t, chain):
                counts['types'] += 1
                in_targ = bool(chain) and chain[-1] == 'targ'
                if isinstance(t, tp.WildCardType):
                    if t.bound is None:
                        counts['star'] += 1
                        return
                    v = terms.var_of(t.variance)
                    if v in (1, 2) and in_targ:
                        counts['proj'] += 1
                        where = 'inside-variable-bound' if 'vbound' in chain else 'plain'
                        if SW['USV'] in sw:
                            found.append(('USV', {'slot': slot_kind, 'where': where},
                                          '%s projection %s in %s of %s' % (
                                              'out' if v == 1 else 'in', terms.term_str(terms.to_term(t)),
                                              slot_kind, owner)))
                        if v == 2:
                            counts['contra'] += 1
                            if SW['CONTRA'] in sw and SW['USV'] not in sw:
                                found.append(('CONTRA', {'slot': slot_kind, 'where': where},
                                              'contravariant projection %s in %s of %s' % (
                                                  terms.term_str(terms.to_term(t)), slot_kind, owner)))
                elif isinstance(t, tp.TypeParameter):
                    if t.bound is not None:
                        counts['bounded'] += 1
                        if SW['BOUND'] in sw:
                            found.append(('BOUND', {'slot': slot_kind, 'where': 'occurrence' if chain else 'root'},
                                          'bounded type variable %s in %s of %s' % (
                                              terms.term_str(terms.to_term(t)), slot_kind, owner)))
            return fn

        for node, anc in irwalk.iter_nodes(program):
            owner = '%s %s' % (type(node).__name__, getattr(node, 'name', getattr(node, 'func', '')))
            for slot, t in irwalk.type_slots(node):
                kind = slot.split('[')[0]
                if kind == 'tparam':
                    is_fun = isinstance(node, ast.FunctionDeclaration)
                    kind = 'fun-tparam' if is_fun else 'class-tparam'
                    v = terms.var_of(getattr(t, 'variance', None))
                    if v != 0:
                        counts['variant_decl'] += 1
                        if is_fun:
                            found.append(('FUNVAR', {'slot': kind}, 'variant function type parameter %s of %s' % (
                                t.name, owner)))
                        elif self.lang in ('java', 'groovy'):
                            found.append(('DECLVAR', {'slot': kind}, 'variant class type parameter %s of %s in %s' % (
                                t.name, owner, self.lang)))
                _walk(t, on_type(kind, owner), ())
            if isinstance(node, ast.FunctionDeclaration) and node.type_parameters:
                counts['pfun'] += 1
                if SW['PFUN'] in sw:
                    found.append(('PFUN', {'slot': 'function'}, 'function %s declares type parameters %s' % (
                        node.name, [str(x.name) for x in node.type_parameters])))
        for k, v in counts.items():
            out.ev(k, v)
        out.ev('programs-walked')
        if found:
            seen = set()
            for rule, extra, msg in found:
                mech = {'rule': rule, 'lang': self.lang}
                mech.update(extra)
                key = tuple(sorted(mech.items()))
                if key in seen:
                    continue
                seen.add(key)
                out.violation(mech, msg, {'case': self.case.ident(), 'all': [m for _, _, m in found][:10]})
        else:
            # non-trivial: the program contains the feature that some other
            # switch setting would have forbidden, or a switch is active
            nontrivial = bool(sw) or counts['proj'] or counts['bounded'] or counts['pfun']
            out.ok(('prog', self.lang, tuple(sorted(sw)), self.case.seed), nontrivial=bool(nontrivial))
        if len(out.samples) < 2:
            out.sample({'case': self.case.ident(), 'counts': counts, 'findings': [m for _, _, m in found][:3]})


CELL_TIMEOUT = 1500


def plan(tier, seed):
    from vf.boot import LANGS
    from vf.labs.pipeline import switch_subsets
    p = []
    n = 3 if tier == 'quick' else 30
    for lang in LANGS:
        for sw in switch_subsets():
            p.append({'lang': lang, 'switches': sw, 'n': n, 'chunk': 15, 'inject': False,
                      'transformations': 0, 'translate': False})
    return p


def finish(agg, tier):
    q = tier == 'quick'
    agg.floor('programs-walked', 150 if q else 1500)
    agg.floor('types', 30000 if q else 300000)
    return agg.finish(
        rule='judged = generated programs (16 switch subsets x 4 languages x seeds), each walked totally: every '
             'recorded type of every node, through type arguments, projection bounds and variable bounds; '
             'distinct non-trivial = distinct (language, switch subset, seed) programs generated under at least '
             'one switch or containing a feature another setting forbids',
        assumptions=['a projection that is itself the bound of a projection/variable (not a type argument) is '
                     'not a "projected type argument"; star projections are counted, not judged'])
