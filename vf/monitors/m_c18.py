"""C18 — the pipeline never fails internally and does a bounded amount of work.

Events: exceptions escaping a stage; logical steps per stage (PY_START events
of code objects under <repo>/src, counted with sys.monitoring); expression
nesting of the generated program.  Verdicts are on logical steps, never on
wall-clock time."""
import sys

from vf import irwalk, boot

TOOL = 3   # sys.monitoring tool id (free range 0..5; 3 is unused by debuggers/profilers/coverage here)

# step budgets: 50 x the maximum observed on the unchanged tree during
# calibration (2 000 programs, depth 1..8, all languages): see DESIGN C18.
STEP_BUDGET = {'generate': 50 * 2_000_000, 'erase': 50 * 4_000_000,
               'overwrite': 50 * 4_000_000, 'translate': 50 * 400_000}


def _repo_code_objects(prefix):
    """Every code object defined in a module under <repo>/src (functions,
    methods, nested functions, lambdas, comprehensions)."""
    import types
    seen = set()
    out = []

    def add(code):
        if id(code) in seen or not code.co_filename.startswith(prefix):
            return
        seen.add(id(code))
        out.append(code)
        for c in code.co_consts:
            if isinstance(c, types.CodeType):
                add(c)

    def scan(obj, depth=0):
        if isinstance(obj, types.FunctionType):
            add(obj.__code__)
            for cell in (obj.__closure__ or ()):
                try:
                    if depth < 6:
                        scan(cell.cell_contents, depth + 1)
                except ValueError:
                    pass
        elif isinstance(obj, (staticmethod, classmethod)):
            scan(obj.__func__, depth)
        elif isinstance(obj, property):
            for f in (obj.fget, obj.fset, obj.fdel):
                if f is not None:
                    scan(f, depth)
        elif isinstance(obj, type) and depth < 3:
            for v in vars(obj).values():
                scan(v, depth + 1)

    for name, mod in list(sys.modules.items()):
        f = getattr(mod, '__file__', None) or ''
        if f.startswith(prefix) or f == prefix.rstrip('/').rsplit('/', 1)[0] + '/hephaestus.py':
            for v in list(vars(mod).values()):
                if getattr(v, '__module__', None) == name or isinstance(v, type):
                    scan(v)
    return out


def nesting_bound(max_depth):
    return 4 * max_depth + 14


def classify(exc, frames):
    chain = '>'.join(f[1] for f in frames)
    raised = ('%s:%s' % (frames[-1][0], frames[-1][1])) if frames else '?'
    return {'rule': 'exception', 'exc': type(exc).__name__, 'raised_in': raised, 'chain': chain}


class Monitor:
    def __init__(self, out, cell):
        self.out = out
        self.cell = cell
        self.max_depth = cell.get('max_depth') or 6
        self.steps = 0
        self.counting = False
        self.max_steps = {}
        self.max_nesting = 0
        self.prefix = boot.REPO.rstrip('/') + '/src/'
        self._mon = getattr(sys, 'monitoring', None)
        if self._mon is not None and cell.get('count_steps', True):
            m = self._mon
            try:
                m.use_tool_id(TOOL, 'vf-c18')
            except ValueError:
                pass
            m.register_callback(TOOL, m.events.PY_START, self._on_start)
            self.instrumented = 0
            for code in _repo_code_objects(self.prefix):
                m.set_local_events(TOOL, code, m.events.PY_START)
                self.instrumented += 1
            out.info['code_objects_instrumented'] = self.instrumented
        else:
            self._mon = None

    def _on_start(self, code, offset):
        self.steps += 1

    # observer interface ---------------------------------------------------
    def case_begin(self, case):
        self.case = case
        self.case_exc = None
        # resource invariant at the quiescent point between two programs of one session: the driver
        # resets the identifier pool before every program (boot.reseed does the same); a pool that comes
        # back smaller than it was at the first program shrinks with every program, and word() raises
        # once it is empty -- bounded progress fails after a bounded number of programs
        try:
            from src import utils
            n = len(utils.random.WORDS)
            self.out.ev('pool-size-checks')
            if not hasattr(self, 'pool0'):
                self.pool0 = n
            elif n < self.pool0:
                self.out.violation({'rule': 'identifier-pool-not-refilled'},
                                   'after reset_word_pool the identifier pool holds %d words, %d at the first program '
                                   'of the session: it is exhausted after a bounded number of programs' % (
                                       n, self.pool0),
                                   {'case': case.ident(), 'pool_at_first_program': self.pool0, 'pool_now': n})
        except Exception as e:
            self.out.skip('pool-check-failed:' + type(e).__name__)

    def stage_begin(self, name):
        self.steps = 0
        self.counting = True

    def stage_end(self, name, exc):
        self.counting = False
        kind = name.split(':')[0].rstrip('0123456789')
        self.out.ev('stage:' + kind)
        if self._mon is not None:
            self.out.ev('steps', self.steps)
            if self.steps > self.max_steps.get(kind, 0):
                self.max_steps[kind] = self.steps
            if self.steps > STEP_BUDGET[kind]:
                self.out.violation(
                    {'rule': 'step-budget', 'stage': kind},
                    'stage %s took %d logical steps (> budget %d)' % (name, self.steps, STEP_BUDGET[kind]),
                    {'case': self.case.ident(), 'stage': name, 'steps': self.steps})

    def after_generate(self, program):
        n = irwalk.expr_nesting(program)
        self.max_nesting = max(self.max_nesting, n)
        self.out.ev('nesting-checked')
        if n > nesting_bound(self.max_depth):
            self.out.violation({'rule': 'nesting', 'max_depth': self.max_depth},
                               'AST nesting %d exceeds bound %d for max_depth %d' % (
                                   n, nesting_bound(self.max_depth), self.max_depth),
                               {'case': self.case.ident(), 'nesting': n})

    def exception(self, stage, exc, frames, tb):
        self.case_exc = stage
        mech = classify(exc, frames)
        mech['stage'] = stage.split(':')[0].rstrip('0123456789')
        self.out.violation(mech, '%s in stage %s: %s' % (type(exc).__name__, stage, str(exc)[:200]),
                           {'case': self.case.ident(), 'stage': stage, 'traceback': tb})

    def case_end(self, case):
        shape = (case.lang, tuple(case.switches), case.max_depth, len(case.stages), case.failed_at or '')
        if self.case_exc is None:
            self.out.ok(('case',) + shape + (case.seed,), nontrivial=len(case.stages) >= 2)
        self.out.info['max_steps'] = dict(self.max_steps)
        self.out.info['max_nesting_seen'] = {str(self.max_depth): self.max_nesting}


# --------------------------------------------------------------------------
# workload plan and verdict

CELL_TIMEOUT = 1800


def plan(tier, seed):
    from vf.boot import LANGS, SWITCHES
    import itertools
    p = []
    if tier == 'quick':
        for lang in LANGS:
            for d in (1, 2, 3, 4):
                p.append({'lang': lang, 'max_depth': d, 'n': 4, 'chunk': 4})
            p.append({'lang': lang, 'n': 16, 'chunk': 4})              # the default configuration
            p.append({'lang': lang, 'switches': list(SWITCHES), 'n': 8, 'chunk': 4, 'tag': 'allsw'})
            p.append({'lang': lang, 'n': 6, 'chunk': 3, 'tag': 'tp4',
                      'extra_argv': ['--max-type-params', '4'],
                      'cfg': {'limits': {'max_type_params': 4}}})
        # one long session in ONE process (the driver generates every program of a run in one process, or
        # in a few pool workers): generation only, small depth, > 10 000 identifiers requested in total
        p.append({'lang': LANGS[seed % 4], 'max_depth': 3, 'n': 160, 'chunk': 160, 'tag': 'session',
                  'translate': False, 'inject': False, 'transformations': 0, 'count_steps': False})
    else:
        subsets = [list(c) for r in range(5) for c in itertools.combinations(SWITCHES, r)]
        for lang in LANGS:
            for sw in subsets:
                p.append({'lang': lang, 'switches': sw, 'n': 12, 'chunk': 6})
            for d in (1, 2, 3, 4, 5, 7, 8):
                p.append({'lang': lang, 'max_depth': d, 'n': 20 if d < 7 else 10, 'chunk': 5})
            p.append({'lang': lang, 'n': 30, 'chunk': 10, 'tag': 'tp4',
                      'cfg': {'limits': {'max_type_params': 4}}})
            p.append({'lang': lang, 'n': 30, 'chunk': 10, 'tag': 'squeezed', 'transformations': 3,
                      'cfg': {'limits': {'max_var_decls': 0, 'max_top_level': 15,
                                         'fn': {'max_params': 4}}}})
            p.append({'lang': lang, 'n': 20, 'chunk': 10, 'tag': 'tiny',
                      'cfg': {'limits': {'max_top_level': 5, 'min_top_level': 1}}})
            p.append({'lang': lang, 'n': 24, 'chunk': 12, 'tag': 'noshim', 'shim': False})
            p.append({'lang': lang, 'max_depth': 3, 'n': 200, 'chunk': 200, 'tag': 'session',
                      'translate': False, 'inject': False, 'transformations': 0, 'count_steps': False})
    return p


def finish(agg, tier):
    agg.floor('pool-size-checks', 120 if tier == 'quick' else 1200)
    agg.floor('cases', 120 if tier == 'quick' else 1200)
    agg.floor('stage:generate', 120 if tier == 'quick' else 1200)
    agg.floor('stage:translate', 240 if tier == 'quick' else 2400)
    agg.floor('stage:erase', 120 if tier == 'quick' else 1200)
    agg.floor('stage:overwrite', 80 if tier == 'quick' else 800)
    agg.floor('steps', 5_000_000 if tier == 'quick' else 80_000_000)
    return agg.finish(
        rule='a case = (language, switch subset, max_depth, cfg limits, seed) run through generate, '
             'translate, <=3 erasures, overwrite, translate with the real driver call sequence; '
             'judged = cases that completed or raised; distinct non-trivial = distinct completed cases '
             'with at least two translated stages',
        assumptions=['termination is decided as bounded progress: PY_START events of /repo/src code per stage '
                     '<= 50x the calibration maximum; a wall-clock watchdog firing is inconclusive',
                     'the 600 s threading.Timer path of Transformation visitors is never fired'])
