"""C02 — Java translations of valid programs compile with javac; batching does
not change a program's verdict.

Per Java case the texts of the generated program, of the last erased program
and of the overwritten (ill-typed) program are written the way the driver saves
them (<dir>/src/<package>/Main.java).
  T  truth run: every file compiled ALONE, javac -nowarn -Xmaxerrs 100000
     (verdict = exit status, cross-checked by an independent diagnostics parser)
  A  generated / erased file rejected when compiled alone            -> violation
  S  structure: `package src.<pkg>;` header, exactly one top-level `class Main`
  B  batches assembled like hephaestus._run (several programs under one src/),
     compiled with the TOOL's own command line through hephaestus.run_command
     and read with the tool's analyze_compiler_output; a file whose batch verdict
     differs from its alone verdict                                    -> violation
"""
import os
import random
import re
import shutil

from vf import common, javac


class Monitor:
    def __init__(self, out, cell):
        self.out = out
        self.cell = cell
        self.files = []        # dicts: uid, pkg, stage, text, expect_pass, case
        self.root = os.path.join(cell['_scratch'], 'c02')
        os.makedirs(self.root, exist_ok=True)

    def case_begin(self, case):
        self.case = case
        self.per_case = {}

    def translated(self, stage, program, translator, text, pkg):
        kind = stage.rstrip('0123456789')
        self.per_case[kind] = {'pkg': pkg, 'stage': stage, 'kind': kind, 'text': text,
                               'expect_pass': kind != 'overwritten', 'case': self.case.ident()}

    def case_end(self, case):
        for kind in ('generated', 'erased', 'overwritten'):
            if kind in self.per_case:
                f = self.per_case[kind]
                if kind == 'erased' and f['text'] == self.per_case.get('generated', {}).get('text') and \
                        f['pkg'] == self.per_case['generated']['pkg']:
                    self.out.ev('erased-text-identical-to-generated')
                f['uid'] = 'f%04d' % len(self.files)
                self.files.append(f)

    # ------------------------------------------------------------------
    def finish(self):
        out = self.out
        if not javac.have_javac():
            out.skip('javac-missing')
            return
        import hephaestus as H
        from src.compilers.java import JavaCompiler
        paths = {}
        for f in self.files:
            d = os.path.join(self.root, 'alone', f['uid'], 'src', f['pkg'])
            os.makedirs(d, exist_ok=True)
            p = os.path.join(d, 'Main.java')
            with open(p, 'w') as fh:
                fh.write(f['text'])
            f['path'] = p
            paths[p] = f
        truth = javac.compile_alone(list(paths), os.path.join(self.root, 'drv'))
        if truth is None:
            out.skip('alone-driver-failed')
            return
        for p, f in paths.items():
            t = truth[p]
            out.ev('javac-alone-runs')
            f['alone_ok'] = t['rc'] == 0
            f['errors'] = t['errors']
            if (t['rc'] == 0) != (not t['errors']) or t['foreign']:
                out.skip('alone-run-not-understood')
                f['alone_ok'] = None
                continue
            if f['kind'] == 'overwritten':
                out.ev('overwritten-accepted-alone' if f['alone_ok'] else 'overwritten-rejected-alone')
                continue
            # S: structure
            bad = False
            text = f['text']
            if not text.startswith('package src.%s;' % f['pkg']):
                bad = True
                out.violation({'rule': 'package-header', 'stage': f['kind']},
                              'the file does not start with `package src.%s;`' % f['pkg'],
                              {'case': f['case'], 'stage': f['stage'], 'head': text[:80]})
            if len(re.findall(r'^class Main \{', text, re.M)) != 1:
                bad = True
                out.violation({'rule': 'single-main-class', 'stage': f['kind']},
                              'expected exactly one top-level `class Main`',
                              {'case': f['case'], 'stage': f['stage']})
            # A: accepted alone
            if not f['alone_ok']:
                bad = True
                first = t['errors'][0]
                out.violation({'rule': 'javac-rejects', 'stage': f['kind'],
                               'cause': javac.normalize_message(first[1])},
                              'javac rejects the %s program: line %d: %s' % (f['kind'], first[0], first[1]),
                              {'case': f['case'], 'stage': f['stage'], 'errors': t['errors'][:5],
                               'output': t['output'][:1500]})
            if not bad:
                out.ok(('java', f['kind'], common.shape_hash(text)), nontrivial=len(text) > 600)
        # B: batches with the tool's command line
        rng = random.Random(common.h32(self.cell['seeds'][0] if self.cell['seeds'] else 0, 'batches'))
        usable = [f for f in self.files if f.get('alone_ok') is not None]
        sizes = self.cell.get('batch_sizes', [1, 2, 10, 40])
        nb = 0
        for size in sizes:
            for rep in range(self.cell.get('batch_reps', 2)):
                pool = list(usable)
                rng.shuffle(pool)
                if rep % 2 == 1:
                    pool.sort(key=lambda f: f['alone_ok'])      # failing programs first: hostile order
                chosen, pk = [], set()
                for f in pool:
                    if f['pkg'] in pk:
                        continue
                    pk.add(f['pkg'])
                    chosen.append(f)
                    if len(chosen) >= size:
                        break
                if not chosen:
                    continue
                nb += 1
                # like hephaestus._run: a fresh tempfile.mkdtemp() directory (the tool's
                # path regex only admits [A-Za-z0-9/_], which mkdtemp names satisfy)
                import tempfile
                bdir = tempfile.mkdtemp()
                src = os.path.join(bdir, 'src')
                for f in chosen:
                    d = os.path.join(src, f['pkg'])
                    os.makedirs(d, exist_ok=True)
                    with open(os.path.join(d, 'Main.java'), 'w') as fh:
                        fh.write(f['text'])
                comp = JavaCompiler(src)
                cmd = comp.get_compiler_cmd()
                status, output = H.run_command(cmd)
                failed, _ = comp.analyze_compiler_output(output)
                out.ev('tool-batches')
                total_errors = len(javac.IND.findall(output)) if False else len(
                    [1 for ln in output.split('\n') if javac.IND.match(ln)])
                capped = 'only showing the first' in output
                if comp.crash_msg:
                    out.skip('batch-classified-as-crash')
                    shutil.rmtree(bdir, ignore_errors=True)
                    continue
                for f in chosen:
                    key = os.path.join(src, f['pkg'], 'Main.java')
                    batch_ok = key not in (failed or {})
                    out.ev('batch-file-verdicts')
                    if batch_ok != f['alone_ok']:
                        out.violation({'rule': 'batch-verdict-differs',
                                       'cause': 'error-cap-reached' if capped else 'other',
                                       'direction': 'accepted-in-batch' if batch_ok else 'rejected-in-batch'},
                                      'file of package %s: alone %s, in a batch of %d (%d errors printed%s) %s' % (
                                          f['pkg'], 'accepted' if f['alone_ok'] else 'rejected', len(chosen),
                                          total_errors, ', javac capped the list' if capped else '',
                                          'accepted' if batch_ok else 'rejected'),
                                      {'case': f['case'], 'stage': f['stage'], 'batch_size': len(chosen),
                                       'cmd': ' '.join(cmd), 'tail': output[-400:]})
                    else:
                        out.ok(('batch', len(chosen) > 1, f['alone_ok'], common.shape_hash(f['text'])),
                               nontrivial=len(chosen) > 1)
                shutil.rmtree(bdir, ignore_errors=True)
        if self.files and len(out.samples) < 2:
            f = self.files[0]
            out.sample({'case': f['case'], 'stage': f['stage'], 'package': f['pkg'], 'bytes': len(f['text']),
                        'javac_alone': 'accepted' if f.get('alone_ok') else 'rejected',
                        'first_lines': f['text'].split('\n')[:6]})
        shutil.rmtree(self.root, ignore_errors=True)


CELL_TIMEOUT = 2400


def plan(tier, seed):
    from vf.boot import SWITCHES
    from vf.labs.pipeline import switch_subsets
    p = []
    if tier == 'quick':
        p.append({'lang': 'java', 'n': 72, 'chunk': 12, 'batch_sizes': [1, 2, 10, 36], 'batch_reps': 2})
        p.append({'lang': 'java', 'n': 24, 'chunk': 12, 'switches': list(SWITCHES), 'tag': 'allsw',
                  'batch_sizes': [2, 12], 'batch_reps': 1})
        p.append({'lang': 'java', 'n': 48, 'chunk': 48, 'tag': 'bigbatch', 'batch_sizes': [120], 'batch_reps': 2})
        # generated programs only (no mutation stages): cheap volume for translator / generator paths that
        # about one program in a hundred takes
        p.append({'lang': 'java', 'n': 208, 'chunk': 13, 'tag': 'genonly', 'transformations': 0, 'inject': False,
                  'batch_sizes': [13], 'batch_reps': 1})
    else:
        for sw in switch_subsets():
            p.append({'lang': 'java', 'n': 60, 'chunk': 30, 'switches': sw,
                      'batch_sizes': [1, 2, 10, 40, 90], 'batch_reps': 2})
        p.append({'lang': 'java', 'n': 240, 'chunk': 80, 'tag': 'bigbatch', 'batch_sizes': [120, 240], 'batch_reps': 3})
        p.append({'lang': 'java', 'n': 60, 'chunk': 30, 'max_depth': 7, 'batch_sizes': [10], 'batch_reps': 1})
        p.append({'lang': 'java', 'n': 60, 'chunk': 30, 'transformations': 3, 'tag': 't3',
                  'batch_sizes': [10], 'batch_reps': 1})
        p.append({'lang': 'java', 'n': 1600, 'chunk': 50, 'tag': 'genonly', 'transformations': 0, 'inject': False,
                  'batch_sizes': [50], 'batch_reps': 1})
    return p


def finish(agg, tier):
    q = tier == 'quick'
    agg.floor('javac-alone-runs', 250 if q else 2500)
    agg.floor('tool-batches', 20 if q else 200)
    agg.floor('batch-file-verdicts', 300 if q else 5000)
    return agg.finish(
        rule='judged = Java files (generated and erased stage) compiled alone by the real javac, plus (file, batch) '
             'verdict comparisons for batches of 1..240 programs (passing and overwritten ones mixed, shuffled and '
             'failing-first orders) compiled with the tool\'s own argv through hephaestus.run_command and parsed by '
             'JavaCompiler.analyze_compiler_output; distinct non-trivial = distinct program texts > 600 bytes / '
             'verdicts in batches of more than one program',
        assumptions=['javac 17 is the judge; the alone runs lift javac\'s default limit of 100 printed errors'])
