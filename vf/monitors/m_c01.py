"""C01 / C05 — generated programs are well-typed / closed and well-scoped.

One walk of the independent reference checker (vf/refcheck.py) over every
program Generator.generate() returns.  C01 = the typing rules (INIT ARG RET
COND ASSIGN ELEM DEFAULT TARG ABSTRACT OVERRIDE FINALSUPER), C05 = the scoping
rules (RESOLVE ARITY MUTABLE CONCRETE TYVAR UNIQUE RESERVED).  For Java the
real javac is the judge of the whole program as well: a checker finding on a
program javac accepts is a CHECKER-DISAGREEMENT (reported, never a violation)."""
import os

from vf import common, refcheck, javac, terms

RULES = {'C01': {'INIT', 'ARG', 'RET', 'COND', 'ASSIGN', 'ELEM', 'DEFAULT', 'TARG', 'ABSTRACT', 'OVERRIDE',
                 'FINALSUPER', 'GENEXPR'},
         'C05': {'RESOLVE', 'ARITY', 'MUTABLE', 'CONCRETE', 'TYVAR', 'UNIQUE', 'RESERVED'}}


def cause_of(f, T):
    """Structural class of an assignability finding: are both types instantiations of ONE generic
    class that has dependent parameters (a parameter whose bound mentions another parameter)?  The
    generator narrows an expected type with find_subtypes, whose dependent-parameter bookkeeping
    can return a non-subtype (C09-K4)."""
    have, want = f['extra'].get('have'), f['extra'].get('want')
    if not have or not want:
        return None

    def dep_class(x, y):
        if x[0] == 'c' and y[0] == 'c' and x[1] == y[1] and x[1] in T.classes:
            params = T.classes[x[1]][0]
            names = {p[0] for p in params}
            if any(p[2] is not None and (terms.free_vars(p[2]) & names) for p in params):
                return True
            return any(dep_class(a if a[0] != 'w' else (a[2] or a), b if b[0] != 'w' else (b[2] or b))
                       for a, b in zip(x[2], y[2]))
        return False
    return 'same-class-with-dependent-parameters' if dep_class(have, want) else 'other'


def reserved_words(lang):
    from vf import boot
    p = os.path.join(boot.REPO, 'src', 'resources', '%s_keywords' % lang)
    if os.path.isfile(p) and lang in ('groovy', 'scala'):
        with open(p) as f:
            return {l.strip() for l in f if l.strip()}
    return set()


class Monitor:
    def __init__(self, out, cell):
        self.out = out
        self.cell = cell
        self.prop = cell['prop']
        self.rules = RULES[self.prop]
        self.lang = cell['lang']
        self.java = []
        self.root = os.path.join(cell['_scratch'], 'c01')
        self.res = reserved_words(self.lang)

    def _install_genexpr(self):
        """Second monitor of C01: wrapper on Generator.generate_expr(expr_type, ...) -> expr.  Records the
        requested type (as a term, at call time) with the node returned; the walker judges `type of the
        node <= requested type` at the node's position for every node that survives into the program."""
        if getattr(Monitor, '_gx_installed', False):
            return
        from src.generators import generator as G
        orig = G.Generator.generate_expr
        mon_box = Monitor._gx_box = {'rec': None}

        def generate_expr(gself, expr_type=None, *a, **k):
            r = orig(gself, expr_type, *a, **k)
            rec = mon_box['rec']
            if rec is not None and expr_type is not None and r is not None:
                try:
                    rec.append((r, refcheck.strip_v(terms.to_term(expr_type))))
                except Exception:
                    pass
            return r
        G.Generator.generate_expr = generate_expr
        Monitor._gx_installed = True

    def case_begin(self, case):
        self.case = case
        self.found = None
        if self.prop == 'C01':
            self._install_genexpr()
            self.gx = []
            Monitor._gx_box['rec'] = self.gx
        if self.prop == 'C05':
            # invariant at a quiescent point: after the driver's reset of the identifier pool no
            # reserved word of the target language can be drawn (every identifier comes from the pool)
            from src import utils
            bad = sorted((self.res | refcheck.KEYWORDS.get(self.lang, set())) & set(utils.random.WORDS))
            self.out.ev('pool-checks')
            if bad:
                self.out.violation({'rule': 'RESERVED', 'lang': self.lang, 'kind': 'identifier-pool'},
                                   'after reset_word_pool the identifier pool contains reserved word(s) %s' % bad[:6],
                                   {'case': case.ident(), 'words': bad[:20]})

    def after_generate(self, program):
        out = self.out
        try:
            ck = refcheck.Checker(program, self.lang, self.res)
            if self.prop == 'C01':
                Monitor._gx_box['rec'] = None
                ge = {}
                for node, want in self.gx:
                    ge.setdefault(id(node), [])
                    if want not in ge[id(node)]:
                        ge[id(node)].append(want)
                ck.gen_expect = ge
                out.ev('generate_expr-calls-recorded', len(self.gx))
            ck.run()
            if self.prop == 'C01':
                out.ev('generate_expr-results-not-in-program', len(ck.gen_expect))
        except RecursionError:
            out.skip('checker-recursion')
            return
        out.ev('programs-checked')
        mine = [f for f in ck.findings if f['rule'] in self.rules]
        for k, v in ck.stats.items():
            if k in self.rules:
                out.ev('positions:' + k, v)
        for k, v in ck.unjudged.items():
            if k.split(':')[0] in self.rules:
                out.unjudged[k] = out.unjudged.get(k, 0) + v
        for f in mine:
            f['cause'] = cause_of(f, ck.T)
        self.found = mine
        self.nontrivial = sum(v for k, v in ck.stats.items() if k in self.rules) > 50
        if self.lang != 'java':
            self._report(mine, None)

    def translated(self, stage, program, translator, text, pkg):
        if self.lang == 'java' and stage == 'generated' and self.found is not None:
            self.java.append({'case': self.case.ident(), 'pkg': pkg, 'text': text, 'found': self.found,
                              'nontrivial': self.nontrivial})

    def _report(self, found, javac_ok, case=None, nontrivial=None):
        out = self.out
        case = case or self.case.ident()
        if not found:
            out.ok(('prog', self.lang, case['seed'], tuple(case['switches'])),
                   nontrivial=self.nontrivial if nontrivial is None else nontrivial)
            return
        seen = set()
        for f in found:
            key = (f['rule'], f['msg'][:60])
            if key in seen:
                continue
            seen.add(key)
            if javac_ok:
                out.ev('checker-disagreement:' + f['rule'])
                if len(out.info.setdefault('checker_disagreements', [])) < 10:
                    out.info['checker_disagreements'].append({'case': case, 'rule': f['rule'], 'msg': f['msg'][:200]})
                continue
            mech = {'rule': f['rule'], 'lang': self.lang}
            if f.get('cause'):
                mech['cause'] = f['cause']
            for k in ('kind', 'capture'):
                if k in f['extra']:
                    mech[k] = f['extra'][k]
            out.violation(mech, f['msg'][:300], {'case': case, 'finding': f['msg'],
                                                'javac': None if javac_ok is None else 'rejects'})

    def finish(self):
        out = self.out
        if not self.java:
            return
        if not javac.have_javac():
            out.skip('javac-missing')
            for j in self.java:
                self._report(j['found'], None, j['case'], j['nontrivial'])
            return
        import shutil
        paths = {}
        for i, j in enumerate(self.java):
            d = os.path.join(self.root, 'f%05d' % i, 'src', j['pkg'])
            os.makedirs(d, exist_ok=True)
            p = os.path.join(d, 'Main.java')
            with open(p, 'w') as fh:
                fh.write(j['text'])
            paths[p] = j
        truth = javac.compile_alone(list(paths), os.path.join(self.root, 'drv'))
        for p, j in paths.items():
            t = truth[p] if truth else None
            okj = None if t is None else (t['rc'] == 0)
            out.ev('javac-runs')
            out.ev('confusion:checker-%s/javac-%s' % ('finding' if j['found'] else 'clean',
                                                     {True: 'accepts', False: 'rejects', None: 'unknown'}[okj]))
            if self.prop == 'C01' and okj is False and t['errors']:
                first = t['errors'][0]
                out.violation({'rule': 'javac-rejects', 'lang': 'java', 'cause': javac.normalize_message(first[1])},
                              'javac rejects the generated program: line %d: %s' % (first[0], first[1]),
                              {'case': j['case'], 'errors': t['errors'][:4]})
                continue
            self._report(j['found'], okj, j['case'], j['nontrivial'])
        shutil.rmtree(self.root, ignore_errors=True)


CELL_TIMEOUT = 2000


def plan(tier, seed):
    from vf.boot import LANGS, SWITCHES
    from vf.labs.pipeline import switch_subsets
    p = []
    q = tier == 'quick'
    for lang in LANGS:
        p.append({'lang': lang, 'n': 30 if q else 200, 'chunk': 10 if q else 25, 'inject': False,
                  'transformations': 0})
        if q:
            p.append({'lang': lang, 'n': 10, 'chunk': 10, 'inject': False, 'transformations': 0,
                      'switches': list(SWITCHES), 'tag': 'allsw'})
        else:
            for sw in switch_subsets()[1:]:
                p.append({'lang': lang, 'n': 25, 'chunk': 25, 'inject': False, 'transformations': 0, 'switches': sw})
            for d in (2, 4, 7):
                p.append({'lang': lang, 'n': 30, 'chunk': 15, 'inject': False, 'transformations': 0, 'max_depth': d})
    return p


def finish(agg, tier):
    q = tier == 'quick'
    prop = agg.prop
    agg.floor('programs-checked', 120 if q else 2000)
    if prop == 'C01':
        agg.floor('positions:INIT', 1500 if q else 25000)
        agg.floor('positions:ARG', 600 if q else 10000)
        agg.floor('positions:RET', 600 if q else 10000)
        agg.floor('javac-runs', 30 if q else 500)
        agg.floor('positions:GENEXPR', 1500 if q else 25000)
    else:
        agg.floor('positions:RESOLVE', 3000 if q else 50000)
        agg.floor('positions:ARITY', 800 if q else 12000)
        agg.floor('positions:RESERVED', 8000 if q else 120000)
        agg.floor('positions:TYVAR', 2000 if q else 30000)
    return agg.finish(
        rule='judged = generated programs walked completely by the reference checker (every typed position / every '
             'name-use site gets ok, violation or unjudged-with-reason); for Java the program is also compiled by '
             'javac; distinct non-trivial = distinct (language, seed, switches) programs with more than 50 judged '
             'positions',
        assumptions=['only definite errors are violations: assignability over-approximates the four languages '
                     '(numeric conversions, SAM conversion, top type); positions needing capture conversion, '
                     'generic-call inference or an unresolved receiver are unjudged and counted',
                     'Kotlin/Groovy/Scala have no compiler in the sandbox: the checker (calibrated against javac on '
                     'Java programs, see the confusion counters) is the only judge there'])
