"""C06 — the subtyping judgement is sound, and exact on concrete class types.

Two sources of (S, T, answer) triples:
  * typelab: real IR types built from a spec, all ordered pairs of a type
    universe (exhaustive over a small family of tables, random larger tables);
  * pipeline: every outermost is_subtype / is_assignable query issued while the
    real generator, mutations and translators run.
Oracle: terms.refsub over the spec's / the program's class table."""
import random

from vf import terms, common
from vf.terms import INV, COV, CON


def top_kind(x):
    return x[0] if x[0] != 'c' else ('c+' if x[2] else 'c0')


def arg_profile(s, t, T):
    """Structural cause descriptor for a disagreement between two
    instantiations of the same class: per argument (declared variance,
    left kind, right kind)."""
    if s[0] == 'c' and t[0] == 'c' and s[1] == t[1] and s[1] in T.classes and len(s[2]) == len(t[2]):
        params = T.classes[s[1]][0]
        prof = []
        for a, b, p in zip(s[2], t[2], params):
            def k(z):
                if z[0] == 'w':
                    return 'star' if z[2] is None else {COV: 'out', CON: 'in', INV: 'inv-w'}[z[1]]
                return 'plain'
            prof.append('%s:%s/%s' % ({INV: 'inv', COV: 'cov', CON: 'con'}[p[1]], k(a), k(b)))
        return 'same-class[' + ','.join(sorted(set(prof))) + ']'
    return '%s/%s' % (top_kind(s), top_kind(t))


def judge(s, t, ans, T, prim, consistent, out, witness, api='is_subtype'):
    """Judge one query.  Returns 'ok' | 'violation' | 'unjudged'."""
    try:
        ref = terms.refsub(s, t, T)
    except terms.Unknown as u:
        out.skip('oracle-unknown:' + str(u).split()[0])
        return 'unjudged'
    except RecursionError:
        out.skip('oracle-unknown:recursion')
        return 'unjudged'
    shape = (terms.shape(s), terms.shape(t), bool(ans))
    nontrivial = s != t and s != ('bot',)
    if ans and not ref:
        out.violation({'rule': 'unsound', 'api': api, 'cause': arg_profile(s, t, T)},
                      '%s(%s, %s) answered True but the declarative relation says no' % (
                          api, terms.term_str(s), terms.term_str(t)), witness, shape)
        return 'violation'
    if ans:
        out.ok(shape, nontrivial)
        out.ev('positive-confirmed')
        return 'ok'
    exact = (not prim) and consistent and terms.in_exact_domain(s, T) and terms.in_exact_domain(t, T)
    if exact and ref:
        # the exactness domain excludes every use of the IMPLICIT top type, also inside the
        # supertype chain: the negative answer is only wrong if the relation holds without it
        top, T.top = T.top, None
        try:
            ref = terms.refsub3(s, t, T)
        finally:
            T.top = top
        if ref is None:
            out.skip('oracle-unknown:no-top')
            return 'unjudged'
        if not ref:
            out.skip('negative-holds-only-through-implicit-top')
            return 'unjudged'
    if exact and ref:
        out.violation({'rule': 'inexact', 'api': api, 'cause': arg_profile(s, t, T)},
                      '%s(%s, %s) answered False inside the exactness domain but the declarative relation holds' % (
                          api, terms.term_str(s), terms.term_str(t)), witness, shape)
        return 'violation'
    if exact:
        out.ok(shape, nontrivial)
        out.ev('negative-confirmed-exact')
        return 'ok'
    out.skip('negative-outside-exactness-domain')
    return 'unjudged'


# --------------------------------------------------------------------------
# typelab cell


def universe(lab, rng, depth, cap):
    dom = lab.ground_terms(depth, projections='domain', cap=cap, rng=rng)
    dom = [x for x in dom if lab.within_bounds(x)]
    extra = lab.ground_terms(1, with_top=True, projections='all', cap=cap, rng=rng)
    extra = [x for x in extra if x not in set(dom)]
    return dom, extra


def cell_typelab(cell):
    from vf import boot, typelab
    boot.light()
    out = common.CellOut()
    rng = random.Random(cell['rseed'])
    lang = cell['lang']
    if cell['family'] == 'small':
        specs = typelab.small_family(lang)[cell['lo']:cell['hi']]
    else:
        specs = [typelab.random_spec(lang, random.Random(common.h32(cell['rseed'], i)))
                 for i in range(cell['count'])]
    for spec in specs:
        lab = typelab.Lab(spec)
        T = lab.T
        out.ev('tables')
        dom, extra = universe(lab, rng, cell.get('depth', 2), cell.get('cap', 60))
        if cell.get('max_universe') and len(dom) > cell['max_universe']:
            dom = rng.sample(dom, cell['max_universe'])
        U = dom + extra[:cell.get('max_extra', 40)]
        real = {}
        for x in U:
            try:
                real[x] = lab.real(x)
            except Exception as e:
                out.skip('cannot-build:' + type(e).__name__)
        U = [x for x in U if x in real]
        out.ev('types', len(U))
        # every real object must read back as the term it was built from
        for x in U:
            if terms.to_term(real[x]) != x:
                out.skip('term-roundtrip-mismatch')
                real.pop(x)
        U = [x for x in U if x in real]
        bot = lab.real(('bot',))
        for s in U:
            rs = real[s]
            out.ev('pairs')
            try:
                a = bool(bot.is_subtype(rs))
            except Exception as e:
                out.skip('raised:' + type(e).__name__)
                a = None
            if a is False:
                out.violation({'rule': 'bottom', 'api': 'is_subtype', 'cause': top_kind(s)},
                              'bottom type is not below %s' % terms.term_str(s),
                              {'spec': spec, 's': ('bot',), 't': s})
            elif a:
                out.ok(('bot', terms.shape(s)), False)
            for t in U:
                rt = real[t]
                out.ev('pairs')
                try:
                    ans = bool(rs.is_subtype(rt))
                except Exception as e:
                    out.skip('raised:' + type(e).__name__)
                    continue
                w = {'spec': spec, 's': s, 't': t, 'answer': ans}
                judge(s, t, ans, T, False, True, out, w)
                if s is t and not ans and terms.in_exact_domain(s, T):
                    out.violation({'rule': 'reflexivity', 'api': 'is_subtype', 'cause': top_kind(s)},
                                  '%s is not a subtype of itself' % terms.term_str(s), w)
        # transitivity of the implementation on the exactness domain
        D = [x for x in dom if x in real and terms.in_exact_domain(x, T)]
        if len(D) > 28:
            D = rng.sample(D, 28)
        sub = {}
        for a in D:
            for b in D:
                try:
                    sub[(a, b)] = bool(real[a].is_subtype(real[b]))
                except Exception:
                    sub[(a, b)] = None
        for a in D:
            for b in D:
                if not sub[(a, b)]:
                    continue
                for c in D:
                    if sub[(b, c)]:
                        out.ev('triples')
                        if sub[(a, c)] is False:
                            out.violation({'rule': 'transitivity', 'api': 'is_subtype',
                                           'cause': '%s/%s/%s' % (top_kind(a), top_kind(b), top_kind(c))},
                                          '%s <: %s <: %s but not %s <: %s' % (
                                              terms.term_str(a), terms.term_str(b), terms.term_str(c),
                                              terms.term_str(a), terms.term_str(c)),
                                          {'spec': spec, 'a': a, 'b': b, 'c': c})
        if len(out.samples) < 2 and U:
            s, t = rng.choice(U), rng.choice(U)
            out.sample({'table': [(c['name'], c['params'], c['super']) for c in spec['classes']],
                        'query': [terms.term_str(s), terms.term_str(t)],
                        'impl': bool(real[s].is_subtype(real[t])), 'reference': terms.refsub3(s, t, T)})
    return out.result()


# --------------------------------------------------------------------------
# pipeline monitor: every outermost query of a real run


def _all_subclasses(c):
    r = [c]
    for s in c.__subclasses__():
        r += _all_subclasses(s)
    return r


def embedded_sig(t, depth=0):
    """(term, embedded supertypes' terms) pairs of every class-type occurrence."""
    from src.ir import types as tp
    acc = []

    def go(x, d):
        if x is None or d > 8:
            return
        if isinstance(x, tp.ParameterizedType):
            acc.append((terms.to_term(x), tuple(terms.to_term(s) for s in x.supertypes)))
            for a in x.type_args:
                go(a, d + 1)
            for s in x.supertypes:
                go(s, d + 1)
        elif isinstance(x, (tp.WildCardType, tp.TypeParameter)):
            go(x.bound, d + 1)
        elif isinstance(x, tp.Builtin):
            return
        elif isinstance(x, tp.SimpleClassifier):
            acc.append((terms.to_term(x), tuple(terms.to_term(s) for s in x.supertypes)))
            for s in x.supertypes:
                go(s, d + 1)
    go(t, depth)
    return tuple(dict.fromkeys(acc))


def sig_consistent(sig, T):
    for term, sups in sig:
        try:
            want = tuple(terms.supers_of(term, T))
        except terms.Unknown:
            return False
        if want != sups:
            return False
    return True


class Monitor:
    def __init__(self, out, cell):
        from src.ir import types as tp
        self.out = out
        self.cell = cell
        self.depth = 0
        self.rec = {}
        self.installed = 0
        for c in set(_all_subclasses(tp.Type)):
            for api in ('is_subtype', 'is_assignable'):
                if api in c.__dict__:
                    self._wrap(c, api)
                    self.installed += 1
        out.info['wrapped_methods'] = self.installed

    def _wrap(self, cls, api):
        f = cls.__dict__[api]
        mon = self

        def w(self, other):
            mon.depth += 1
            try:
                r = f(self, other)
            finally:
                mon.depth -= 1
            if mon.depth == 0:
                mon.observe(api, self, other, r)
            return r
        w.__name__ = api
        setattr(cls, api, w)

    def observe(self, api, s, t, r):
        self.out.ev('queries:' + api)
        try:
            key = (api, terms.to_term(s), terms.to_term(t), bool(r))
        except Exception:
            return
        if key in self.rec:
            return
        prim = terms.mentions_primitive(s) or terms.mentions_primitive(t)
        self.rec[key] = (prim, embedded_sig(s) + embedded_sig(t), s, t)

    def case_begin(self, case):
        self.case = case
        self.rec = {}
        self.program = None

    def after_generate(self, program):
        self.program = program

    def case_end(self, case):
        if self.program is None:
            return
        out = self.out
        T = terms.Table.from_program(self.program)
        numeric = ('IntegerType', 'ShortType', 'LongType', 'ByteType', 'FloatType', 'DoubleType',
                   'NumberType', 'CharType', 'BigDecimalType', 'BigIntegerType')
        for (api, s, t, r), (prim, sig, so, to) in self.rec.items():
            T.scan(so)
            T.scan(to)
            out.ev('distinct-queries')
            if api == 'is_assignable':
                # judged only where assignability is defined as subtyping
                if (s[0] == 'b' and s[1] in numeric) or (t[0] == 'b' and t[1] in numeric) or prim or \
                        'Array@' in str(s) or 'Array@' in str(t):
                    out.skip('assignable-with-language-conversion')
                    continue
            w = {'case': case.ident(), 's': s, 't': t, 'answer': r,
                 's_str': terms.term_str(s), 't_str': terms.term_str(t)}
            judge(s, t, r, T, prim, sig_consistent(sig, T), out, w, api)
        if len(out.samples) < 2 and self.rec:
            (api, s, t, r) = next(iter(self.rec))
            out.sample({'case': case.ident(), 'api': api, 'query': [terms.term_str(s), terms.term_str(t)],
                        'impl': r, 'reference': terms.refsub3(s, t, T)})
        self.rec = {}


def cell_replay(cell):
    """Re-run one typelab witness: {'spec', 's', 't'}."""
    from vf import boot, typelab
    boot.light()
    out = common.CellOut()
    w = cell['witness']

    def tup(x):
        return tuple(tup(e) for e in x) if isinstance(x, list) else x
    spec = w['spec']
    for c in spec['classes']:
        c['params'] = [tuple(tup(p)) for p in c['params']]
        c['super'] = tup(c['super']) if c['super'] is not None else None
    lab = typelab.Lab(spec)
    s, t = tup(w['s']), tup(w['t'])
    rs, rt = lab.real(s), lab.real(t)
    ans = bool(rs.is_subtype(rt))
    out.info['impl'] = ans
    out.info['reference'] = terms.refsub3(s, t, lab.T)
    judge(s, t, ans, lab.T, False, True, out, w)
    return out.result()


# --------------------------------------------------------------------------
# plans


def lab_cells(tier, seed):
    from vf import typelab
    from vf.boot import LANGS
    cells = []
    # exhaustive small family: the number of specs is language independent
    n_small = 156
    step = 13 if tier == 'quick' else 6
    langs = ['kotlin', 'java'] if tier == 'quick' else LANGS
    for lang in langs:
        for lo in range(0, n_small, step):
            cells.append({'family': 'small', 'lang': lang, 'lo': lo, 'hi': lo + step,
                          'rseed': common.h32(seed, 'small', lang, lo), 'depth': 2,
                          'cap': 30 if tier == 'quick' else 80,
                          'max_universe': 90 if tier == 'quick' else 220})
    nrand = 8 if tier == 'quick' else 64
    for i in range(nrand):
        lang = LANGS[i % 4]
        cells.append({'family': 'random', 'lang': lang, 'count': 4 if tier == 'quick' else 10,
                      'rseed': common.h32(seed, 'rand', i), 'depth': 2,
                      'cap': 25 if tier == 'quick' else 50,
                      'max_universe': 110 if tier == 'quick' else 260})
    return cells


def pipeline_plan(tier, seed):
    from vf.boot import LANGS
    n = 8 if tier == 'quick' else 150
    return [{'lang': lang, 'n': n, 'chunk': 4 if tier == 'quick' else 15} for lang in LANGS]


def finish(agg, tier, lab_events):
    q = tier == 'quick'
    agg.floor('pairs', 200000 if q else 3000000, lab_events)
    agg.floor('tables', 100 if q else 600, lab_events)
    agg.floor('triples', 5000 if q else 100000, lab_events)
    agg.floor('distinct-queries', 8000 if q else 150000)
    agg.floor('queries:is_subtype', 30000 if q else 600000)
    agg.floor('positive-confirmed', 3000 if q else 60000)
    agg.floor('negative-confirmed-exact', 20000 if q else 400000)
    return agg.finish(
        rule='typelab: every ordered pair of a type universe (depth<=2; bounded projections consistent with declared '
             'variance, plus a soundness-only fringe with mismatched projections, star and the top type) over each '
             'table of the small family A<T>/B[:A<..>]/D/E (all variance annotations, bounded/unbounded; enumerated '
             'completely at the thorough tier for 4 languages) and over seeded random tables (<=12 classes, <=3 '
             'parameters); plus all triples of a 28-type domain sample for transitivity; pipeline: every distinct '
             'outermost is_subtype/is_assignable query of real generation+mutation+translation runs. judged = queries '
             'with a verdict (all positives; negatives only inside the exactness domain); distinct non-trivial = '
             'distinct (S-shape, T-shape, answer) with S != T and S not bottom, identifiers erased',
        assumptions=['supertypes of projected types are defined by naive substitution (as the IR defines them), not '
                     'by capture conversion', 'negatives outside the exactness domain are not judged'],
        exhaustive=False)
