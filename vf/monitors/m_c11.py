"""C11 — translation is a pure function of the program.

Histories per program p (at every stage: generated, erased, overwritten) and
its own-language translator class T:
  h0  the driver's translator object (reused across the stages of the case)
  h1  a fresh T(package, options)
  h2  the same fresh object again
  h3  a long-lived T that has translated every earlier program of this cell
      (other packages), its package re-targeted the way the driver does
  h4  a fresh T after p was translated by the three other languages'
      translators (their exceptions are caught and only counted)
  h5  a fresh T at the END of the cell's session, on a faithful copy of the program taken when it
      was first translated: whatever later programs left behind anywhere in the process (module or
      class level state included) must not show in the text
Verdicts: all texts byte-identical; the program's value digest unchanged by
every translation (own-language and foreign)."""
import pickle

from vf import digest as dg


def short_diff(a, b):
    if a is None or b is None:
        return 'one text missing'
    la, lb = a.splitlines(), b.splitlines()
    for i, (x, y) in enumerate(zip(la, lb)):
        if x != y:
            return 'line %d: %r != %r' % (i + 1, x[:120], y[:120])
    return 'length %d != %d lines' % (len(la), len(lb))


class Monitor:
    def __init__(self, out, cell):
        self.out = out
        self.cell = cell
        self.long_lived = None
        self.pre = None
        self.kept = []

    def case_begin(self, case):
        self.case = case

    def _viol(self, rule, msg, extra=None):
        w = {'case': self.case.ident(), 'stage': self.stage}
        if extra:
            w.update(extra)
        self.out.violation({'rule': rule, 'lang': self.case.lang}, msg, w)

    def before_translate(self, stage, program, translator, pkg):
        self.stage = stage
        self.pre = dg.fast_digest(program)

    def translated(self, stage, program, translator, text, pkg):
        import hephaestus as H
        from src import utils
        out = self.out
        lang = self.case.lang
        opts = H.cli_args.options['Translator']
        package = 'src.' + pkg
        T = H.TRANSLATORS[lang]
        bad = 0
        # the driver's own translation must not have modified the program
        d0 = dg.fast_digest(program)
        out.ev('digest-pairs')
        if d0 != self.pre:
            bad += 1
            self._viol('program-modified', 'driver translation (%s) changed the program value' % stage,
                       {'history': 'h0'})

        def run(tr, hist):
            nonlocal bad
            try:
                t = utils.translate_program(tr, program)
            except Exception as e:       # C18's business; here only "no verdict"
                out.skip('translator-raised:' + type(e).__name__)
                return None
            out.ev('translations')
            d = dg.fast_digest(program)
            out.ev('digest-pairs')
            if d != d0:
                bad += 1
                self._viol('program-modified', 'translation history %s changed the program value' % hist,
                           {'history': hist})
            return t

        fresh = T(package, opts)
        h1 = run(fresh, 'h1')
        h2 = run(fresh, 'h2')
        if self.long_lived is None:
            self.long_lived = T(package, opts)
        self.long_lived.package = package
        h3 = run(self.long_lived, 'h3')
        foreign = 0
        for other in H.TRANSLATORS:
            if other == lang:
                continue
            try:
                utils.translate_program(H.TRANSLATORS[other](package, opts), program)
                foreign += 1
                out.ev('foreign-translations')
            except Exception as e:
                out.ev('foreign-raised')
            d = dg.fast_digest(program)
            out.ev('digest-pairs')
            if d != d0:
                bad += 1
                self._viol('program-modified-by-foreign-translator',
                           'translating the %s program with the %s translator changed its value' % (lang, other),
                           {'history': 'h4', 'foreign': other})
                d0 = d
        h4 = run(T(package, opts), 'h4')
        for name, t in (('h1', h1), ('h2', h2), ('h3', h3), ('h4', h4)):
            if t is None:
                continue
            out.ev('text-comparisons')
            if t != text:
                bad += 1
                self._viol('text-differs', 'history %s differs from the driver text at stage %s: %s' % (
                    name, stage, short_diff(text, t)), {'history': name})
        if stage == 'generated' and len(self.kept) < 40:
            # h5: keep a faithful copy now, translate it again when the session ends
            try:
                blob = pickle.dumps(program)
                again = utils.translate_program(T(package, opts), pickle.loads(blob))
                if again == text:
                    self.kept.append((blob, text, package, self.case.ident()))
                else:
                    out.skip('h5:copy-does-not-translate-identically')     # C13's business
            except Exception as e:
                out.skip('h5:copy-failed:' + type(e).__name__)
        if not bad:
            out.ok(('text', lang, stage.rstrip('0123456789'), __import__('hashlib').sha1(text.encode()).hexdigest()),
                   nontrivial=len(text) > 400)
        if len(out.samples) < 2:
            out.sample({'case': self.case.ident(), 'stage': stage, 'text_bytes': len(text),
                        'histories_equal': not bad, 'digest': d0})


    def finish(self):
        import hephaestus as H
        from src import utils
        out = self.out
        T = H.TRANSLATORS[self.cell['lang']]
        opts = H.cli_args.options['Translator']
        for blob, text, package, ident in self.kept:
            try:
                t = utils.translate_program(T(package, opts), pickle.loads(blob))
            except Exception as e:
                out.skip('h5:translator-raised:' + type(e).__name__)
                continue
            out.ev('text-comparisons')
            out.ev('session-end-comparisons')
            if t != text:
                out.violation({'rule': 'text-differs', 'lang': self.cell['lang'], 'history': 'session-end'},
                              'a fresh translator at the end of the session prints the program differently from '
                              'its first translation: %s' % short_diff(text, t),
                              {'case': ident, 'stage': 'generated', 'history': 'h5'})
            else:
                out.ok(('h5', self.cell['lang'], ident['seed']), nontrivial=False)


CELL_TIMEOUT = 1500


def plan(tier, seed):
    from vf.boot import LANGS, SWITCHES
    p = []
    n = 24 if tier == 'quick' else 240
    for lang in LANGS:
        p.append({'lang': lang, 'n': n, 'chunk': 8 if tier == 'quick' else 20})
        p.append({'lang': lang, 'n': n // 3, 'chunk': 8 if tier == 'quick' else 20,
                  'switches': [SWITCHES[0]], 'tag': 'nousv'})
        p.append({'lang': lang, 'n': 6 if tier == 'quick' else 40, 'chunk': 6 if tier == 'quick' else 20,
                  'tag': 'cast', 'extra_argv': ['--cast-numbers']})
        # library-level configuration (cfg.json_config): functions with up to 5 parameters -- nested functions of
        # arity > 3 make the Java/Groovy translators declare further FunctionN interfaces
        p.append({'lang': lang, 'n': 8 if tier == 'quick' else 60, 'chunk': 8 if tier == 'quick' else 20,
                  'tag': 'wideparams', 'cfg': {'limits': {'fn': {'max_params': 5}}}})
        if tier != 'quick':
            p.append({'lang': lang, 'n': 24, 'chunk': 12, 'tag': 'noshim', 'shim': False})
            p.append({'lang': lang, 'n': 40, 'chunk': 20, 'max_depth': 7})
    return p


def finish(agg, tier):
    q = tier == 'quick'
    agg.floor('translations', 1200 if q else 12000)
    agg.floor('text-comparisons', 1200 if q else 12000)
    agg.floor('digest-pairs', 2000 if q else 20000)
    agg.floor('foreign-translations', 100 if q else 1000)
    agg.floor('session-end-comparisons', 100 if q else 1000)
    return agg.finish(
        rule='judged = (program, stage) pairs whose driver text was compared with 4 further translation '
             'histories (fresh, repeated, long-lived reused translator, after 3 foreign-language translators) '
             'and whose value digest was compared around every translation; distinct non-trivial = distinct '
             '(language, stage kind, program text) with text > 400 bytes',
        assumptions=['digest equality is value-structural: object sharing is ignored (DESIGN 4.4)',
                     'a translator whose previous run was aborted by an exception is not a history the driver produces'])
