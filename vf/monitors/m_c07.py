"""C07 — instantiating a generic class substitutes everywhere and mutates nothing.

Monitored operations (wrapped on the real classes / module):
  TypeConstructor.new, types.substitute_type, types.perform_type_substitution,
  ParameterizedType.to_variance_free, ParameterizedType.to_type_variable_free
Per outermost call:
  I1  value digest of every input (constructor / receiver, each argument, the
      substituted type and every value of the map) is the same at exit as at entry
  S1  new(args) with type-variable-free args: the result's supertypes, and their
      supertypes transitively, are the declared ones with parameters replaced
      (typelab: against the SPEC's class table; pipeline: against a term
      snapshot of the constructor taken at entry)
  S2  substitute_type(t, {}) == t  (as a term, and by the IR's own ==)
  S3  substituting ground types for all variables of t leaves no variable and
      equals the reference substitution
  A1  audit: every earlier result of new() still has its creation digest at the
      end of the case / history; a hit is attributed by re-running the case with
      the audit at every operation boundary: changed *during* a monitored
      operation -> violation; changed between operations -> information."""
import random

from vf import terms, common
from vf import digest as dg
from vf.terms import INV, COV, CON


def super_tree(t, depth=0):
    """(term, [super trees]) read from the IR object's embedded supertypes."""
    if depth > 8:
        return (terms.to_term(t), [])
    return (terms.to_term(t), [super_tree(s, depth + 1) for s in getattr(t, 'supertypes', [])])


def subst_tree(tree, m):
    return (terms.subst(tree[0], m), [subst_tree(c, m) for c in tree[1]])


def table_tree(term, T, depth=0):
    if depth > 8:
        return (term, [])
    try:
        sups = terms.supers_of(term, T)
    except terms.Unknown:
        return (term, None)
    return (term, [table_tree(s, T, depth + 1) for s in sups])


def tree_eq(a, b):
    """Compare trees; a None child list (unknown to the oracle) matches anything."""
    if a[0] != b[0]:
        return False, (a[0], b[0])
    if a[1] is None or b[1] is None:
        return True, None
    if len(a[1]) != len(b[1]):
        return False, ('%d supertypes of %s' % (len(a[1]), terms.term_str(a[0])),
                       '%d: %s' % (len(b[1]), [terms.term_str(x[0]) for x in b[1]]))
    for x, y in zip(a[1], b[1]):
        ok, why = tree_eq(x, y)
        if not ok:
            return ok, why
    return True, None


def has_vars(x):
    return terms.has_kind(x, ('v',))


def mini_table(ctor):
    """Class table read from the constructor object at entry: its own
    parameters / declared supertypes, and those of every constructor embedded
    in the declared supertypes (each ParameterizedType carries the constructor
    it was made from, with that class's DECLARED supertypes)."""
    from src.ir import types as tp
    T = terms.Table()

    def add_ctor(c, depth):
        n = terms.cname(c)
        if n in T.classes or depth > 10:
            return
        T.classes[n] = ([(str(p.name), terms.var_of(p.variance),
                          None if p.bound is None else terms.to_term(p.bound)) for p in c.type_parameters],
                        [terms.to_term(s) for s in c.supertypes])
        for s in c.supertypes:
            add_type(s, depth + 1)

    def add_type(t, depth):
        if t is None or depth > 10:
            return
        if isinstance(t, tp.ParameterizedType):
            add_ctor(t.t_constructor, depth)
            for a in t.type_args:
                add_type(a, depth + 1)
        elif isinstance(t, tp.Builtin):
            T.add_builtin_obj(t)
        elif isinstance(t, tp.SimpleClassifier):
            if str(t.name) not in T.classes:
                T.classes[str(t.name)] = ([], [terms.to_term(s) for s in t.supertypes])
                for s in t.supertypes:
                    add_type(s, depth + 1)
        elif isinstance(t, (tp.WildCardType, tp.TypeParameter)):
            add_type(t.bound, depth + 1)
    add_ctor(ctor, 0)
    return T


class Core:
    """Wrappers + judgements shared by the typelab cell and the pipeline monitor."""

    def __init__(self, out):
        from src.ir import types as tp
        self.tp = tp
        self.out = out
        self.depth = 0
        self.registry = []          # (ordinal, obj, digest-at-creation, description)
        self.ordinal = 0
        self.table = None           # typelab: the spec's table
        self.context = {}
        self.attrib = None          # attribution pass: ordinals whose object closure is watched
        self.watch = {}             # id(object) -> ordinal
        self.writes = []            # (ordinal, op-on-stack or None, attribute)
        self.current_op = None
        self.per_case = {}
        self.full_budget = 400
        self._keep = []
        self.orig = {}
        self._install()

    # -- installation ------------------------------------------------------
    def _install(self):
        tp = self.tp
        self._wrap_method(tp.TypeConstructor, 'new', self._pre_new, self._post_new)
        self._wrap_method(tp.ParameterizedType, 'to_variance_free', self._pre_recv, self._post_tvf)
        self._wrap_method(tp.ParameterizedType, 'to_type_variable_free', self._pre_recv, self._post_ttvf)
        self._wrap_func(tp, 'substitute_type', self._pre_subst, self._post_subst)
        self._wrap_func(tp, 'perform_type_substitution', self._pre_subst, self._post_pts)

    def _wrap_method(self, cls, name, pre, post):
        f = cls.__dict__[name]
        core = self

        def w(self, *a, **k):
            return core._run(name, f, (self,) + a, k, pre, post)
        w.__name__ = name
        setattr(cls, name, w)

    def _wrap_func(self, mod, name, pre, post):
        f = getattr(mod, name)
        core = self

        def w(*a, **k):
            return core._run(name, f, a, k, pre, post)
        w.__name__ = name
        setattr(mod, name, w)

    def _run(self, name, f, a, k, pre, post):
        outer = self.depth == 0
        self.out.ev('calls:' + name)
        if not outer:
            return f(*a, **k)
        n = self.per_case[name] = self.per_case.get(name, 0) + 1
        if self.attrib is not None or (name in ('substitute_type', 'perform_type_substitution')
                                       and n > self.full_budget and n % 8):
            # attribution pass, or beyond the per-case budget: observe only 1 in 8
            self.depth += 1
            self.current_op = name
            try:
                r = f(*a, **k)
            finally:
                self.depth -= 1
                self.current_op = None
            if self.attrib is not None and name == 'new':
                self._register_attrib(r)
            else:
                self.out.ev('sampled-out:' + name)
            return r
        self.depth += 1
        st = None
        try:
            try:
                st = pre(name, a, k)
            except Exception as e:                      # the monitor must never disturb the run
                self.out.skip('monitor-pre-failed:' + type(e).__name__)
            r = f(*a, **k)
        except BaseException:
            self.depth -= 1
            self.out.ev('raised:' + name)
            raise
        self.depth -= 1
        if st is not None:
            try:
                post(name, a, k, r, st)
            except Exception as e:
                self.out.skip('monitor-post-failed:%s:%s' % (name, type(e).__name__))
        return r

    # -- attribution pass: write traps on the closure of the hit instantiations
    def _register_attrib(self, r):
        self.ordinal += 1
        if self.ordinal in self.attrib:
            seen = {}
            stack = [r]
            while stack:
                o = stack.pop()
                if id(o) in seen or isinstance(o, dg.ATOMS):
                    continue
                seen[id(o)] = o
                if isinstance(o, (list, tuple, set, frozenset)):
                    stack.extend(o)
                elif isinstance(o, dict):
                    stack.extend(o.keys())
                    stack.extend(o.values())
                else:
                    stack.extend(getattr(o, '__dict__', {}).values())
            for i, o in seen.items():
                self.watch[i] = self.ordinal
            self._keep.append(seen)

    def install_traps(self):
        core = self
        tp = self.tp

        def trap(obj, k, v):
            if core.watch and id(obj) in core.watch:
                core.writes.append((core.watch[id(obj)], core.current_op, k))
            object.__setattr__(obj, k, v)
        tp.Type.__setattr__ = trap

    def remove_traps(self):
        try:
            del self.tp.Type.__setattr__
        except AttributeError:
            pass

    # -- helpers -----------------------------------------------------------
    def _inputs_digest(self, objs):
        return [dg.fast_digest(o) for o in objs]

    def _check_inputs(self, name, objs, before, labels, w):
        after = self._inputs_digest(objs)
        self.out.ev('input-digests', len(objs))
        bad = False
        for o, b, a, lab in zip(objs, before, after, labels):
            if a != b:
                bad = True
                self.out.violation({'rule': 'input-mutated', 'op': name, 'input': lab.split('[')[0]},
                                   '%s modified its %s (%s)' % (name, lab, type(o).__name__),
                                   dict(w, input=lab))
        return bad

    def _witness(self, extra):
        w = dict(self.context)
        w.update(extra)
        return w

    # -- TypeConstructor.new -----------------------------------------------
    def _pre_new(self, name, a, k):
        ctor, args = a[0], list(a[1])
        objs = [ctor] + args
        labels = ['constructor'] + ['argument[%d]' % i for i in range(len(args))]
        st = {'objs': objs, 'labels': labels, 'dig': self._inputs_digest(objs),
              'ctor_term': terms.cname(ctor),
              'params': [str(p.name) for p in ctor.type_parameters],
              'args': [terms.to_term(x) for x in args],
              'ndecl': len(ctor.supertypes),
              'mini': None if (self.table is not None and terms.cname(ctor) in self.table.classes)
              else mini_table(ctor)}
        return st

    def _post_new(self, name, a, k, r, st):
        out = self.out
        w = self._witness({'op': 'new', 'constructor': st['ctor_term'],
                           'args': [terms.term_str(x) for x in st['args']], 'args_terms': st['args']})
        bad = self._check_inputs(name, st['objs'], st['dig'], st['labels'], w)
        args = st['args']
        rt = terms.to_term(r)
        if rt != ('c', st['ctor_term'], tuple(args)):
            bad = True
            out.violation({'rule': 'result-type', 'op': 'new'},
                          'new() returned %s for %s<%s>' % (terms.term_str(rt), st['ctor_term'],
                                                           ', '.join(terms.term_str(x) for x in args)), w)
        if len(args) != len(st['params']):
            out.skip('arity-mismatch')
        elif any(has_vars(x) for x in args):
            out.skip('new:arguments-with-type-variables')
        else:
            m = dict(zip(st['params'], args))
            actual = super_tree(r)
            if self.table is not None and st['ctor_term'] in self.table.classes:
                expected = table_tree(rt, self.table)
                src = 'spec'
            else:
                expected = table_tree(rt, st['mini'])
                src = 'constructor-snapshot'
            ok, why = tree_eq(expected, actual)
            out.ev('supertype-trees')
            if not ok:
                bad = True
                out.violation({'rule': 'supertypes-not-substituted', 'op': 'new', 'oracle': src},
                              'supertypes of %s differ from the declared ones after substitution: expected %s, got %s' % (
                                  terms.term_str(rt), _short(why[0]), _short(why[1])), w)
            if has_vars_tree(actual):
                bad = True
                out.violation({'rule': 'type-variable-left', 'op': 'new'},
                              'a type variable survives in the supertypes of %s' % terms.term_str(rt), w)
        self.ordinal += 1
        if len(self.registry) < 4000:
            self.registry.append((self.ordinal, r, dg.fast_digest(r), terms.term_str(rt)))
        if not bad:
            out.ok(('new', terms.shape(rt), st['ndecl']),
                   nontrivial=bool(st['ndecl']) and any(x[0] in ('c', 'w') for x in args))

    # -- receivers (to_variance_free / to_type_variable_free) ----------------
    def _pre_recv(self, name, a, k):
        objs = [a[0]] + [x for x in a[1:] if isinstance(x, dict)]
        return {'objs': objs, 'labels': ['receiver'] + ['map'] * (len(objs) - 1),
                'dig': self._inputs_digest(objs), 'term': terms.to_term(a[0])}

    def _post_tvf(self, name, a, k, r, st):
        w = self._witness({'op': name, 'receiver': terms.term_str(st['term'])})
        bad = self._check_inputs(name, st['objs'], st['dig'], st['labels'], w)
        if len(a) == 1 or not a[1]:
            exp = st['term']

            def strip(x):
                while x[0] == 'w' and x[2] is not None:
                    x = x[2]
                return x
            exp = ('c', exp[1], tuple(strip(x) for x in exp[2]))
            got = terms.to_term(r)
            self.out.ev('variance-free-results')
            if got != exp:
                bad = True
                self.out.violation({'rule': 'to-variance-free-result', 'op': name},
                                   'to_variance_free(%s) = %s, expected %s' % (
                                       terms.term_str(st['term']), terms.term_str(got), terms.term_str(exp)), w)
        if not bad:
            self.out.ok(('tvf', terms.shape(st['term'])), nontrivial=terms.has_kind(st['term'], ('w',)))

    def _post_ttvf(self, name, a, k, r, st):
        w = self._witness({'op': name, 'receiver': terms.term_str(st['term'])})
        bad = self._check_inputs(name, st['objs'], st['dig'], st['labels'], w)
        got = terms.to_term(r)
        self.out.ev('variable-free-results')
        if has_vars(got):
            bad = True
            self.out.violation({'rule': 'type-variable-left', 'op': name},
                               'to_type_variable_free(%s) = %s still mentions a type variable' % (
                                   terms.term_str(st['term']), terms.term_str(got)), w)
        if not bad:
            self.out.ok(('ttvf', terms.shape(st['term'])), nontrivial=has_vars(st['term']))

    # -- substitute_type / perform_type_substitution -----------------------
    def _pre_subst(self, name, a, k):
        t, m = a[0], a[1]
        objs = [t] + list(m.values())
        return {'objs': objs, 'labels': ['type'] + ['map-value[%d]' % i for i in range(len(objs) - 1)],
                'dig': self._inputs_digest(objs), 'term': terms.to_term(t),
                'map': {str(kk.name): terms.to_term(v) for kk, v in m.items()},
                'keys_are_vars': all(kk.is_type_var() for kk in m)}

    def _post_subst(self, name, a, k, r, st):
        out = self.out
        w = self._witness({'op': name, 'type': terms.term_str(st['term']),
                           'map': {kk: terms.term_str(v) for kk, v in st['map'].items()},
                           'type_term': st['term'], 'map_terms': st['map']})
        bad = self._check_inputs(name, st['objs'], st['dig'], st['labels'], w)
        got = terms.to_term(r)
        t = st['term']
        if not st['map']:
            out.ev('empty-map-substitutions')
            eq = None
            try:
                eq = bool(r == a[0])
            except Exception:
                pass
            if got != t or eq is False:
                bad = True
                out.violation({'rule': 'empty-map-not-identity', 'op': name},
                              'substitute_type(%s, {}) = %s' % (terms.term_str(t), terms.term_str(got)), w)
        fv = terms.free_vars(t)
        ground = st['keys_are_vars'] and fv and fv <= set(st['map']) and \
            not any(has_vars(v) for v in st['map'].values())
        if ground:
            out.ev('ground-substitutions')
            exp = terms.subst(t, st['map'])
            if has_vars(got):
                bad = True
                out.violation({'rule': 'type-variable-left', 'op': name},
                              'substitute_type(%s, %s) = %s still mentions a type variable' % (
                                  terms.term_str(t), w['map'], terms.term_str(got)), w)
            elif got != exp:
                bad = True
                out.violation({'rule': 'substitution-result', 'op': name},
                              'substitute_type(%s, %s) = %s, expected %s' % (
                                  terms.term_str(t), w['map'], terms.term_str(got), terms.term_str(exp)), w)
        if not bad:
            out.ok(('subst', terms.shape(t), len(st['map']), bool(ground)),
                   nontrivial=bool(st['map']) and t[0] in ('c', 'w'))

    def _post_pts(self, name, a, k, r, st):
        w = self._witness({'op': name})
        if not self._check_inputs(name, st['objs'], st['dig'], st['labels'], w):
            self.out.ok(('pts', terms.shape(st['term'])), nontrivial=False)

    # -- audit ---------------------------------------------------------------
    def audit(self):
        """Return the ordinals of registered results whose digest changed."""
        hits = []
        for (n, obj, d0, desc) in self.registry:
            self.out.ev('audited-instantiations')
            if dg.fast_digest(obj) != d0:
                hits.append((n, desc))
        return hits

    def reset_case(self):
        self.registry = []
        self.ordinal = 0
        self.per_case = {}
        self.watch = {}
        self.writes = []
        self._keep = []


def has_vars_tree(tree):
    if has_vars(tree[0]):
        return True
    return any(has_vars_tree(c) for c in (tree[1] or []))


def _short(x):
    if isinstance(x, tuple) and x and isinstance(x[0], str) and x[0] in ('c', 'b', 'v', 'w', 'bot', 'tc', 'other', 'none'):
        return terms.term_str(x)
    return str(x)


# --------------------------------------------------------------------------
# typelab cell: long histories on shared constructors


def cell_typelab(cell):
    from vf import boot, typelab
    boot.light()
    from src.ir import types as tp
    out = common.CellOut()
    core = Core(out)
    rng = random.Random(cell['rseed'])
    lang = cell['lang']
    if cell['family'] == 'small':
        specs = typelab.small_family(lang)[cell['lo']:cell['hi']]
    else:
        specs = [typelab.random_spec(lang, random.Random(common.h32(cell['rseed'], i)))
                 for i in range(cell['count'])]
    for spec in specs:
        core.table = None                 # while the table is being built, judge against the constructor snapshot
        lab = typelab.Lab(spec)
        core.table = lab.T
        core.context = {'spec': spec}
        core.reset_case()
        out.ev('tables')
        generic = [c for c in spec['classes'] if c.get('params')]
        if not generic:
            continue
        U = lab.ground_terms(cell.get('depth', 1), projections='domain', cap=cell.get('cap', 40), rng=rng)
        U = [x for x in U if lab.within_bounds(x)]
        ctors = {c['name']: lab.ctype[c['name']] for c in generic}          # SHARED constructor objects
        pool = {}
        for x in U:
            try:
                pool[x] = lab.real(x)                                           # SHARED argument objects
            except Exception:
                pass
        U = list(pool)
        results = []
        for step in range(cell.get('steps', 300)):
            c = rng.choice(generic)
            ctor = ctors[c['name']]
            args_t = []
            m = {}
            okb = True
            for (pn, pv, pb) in c['params']:
                cands = U
                a = rng.choice(cands)
                if pb is not None:
                    b = terms.subst(pb, m)
                    good = [x for x in rng.sample(U, min(len(U), 25))
                            if terms.refsub3(x, b, lab.T) is True]
                    if not good:
                        okb = False
                        break
                    a = rng.choice(good)
                if pv in (INV, COV) and rng.random() < 0.2:
                    a = ('w', COV, a)
                elif pv in (INV, CON) and rng.random() < 0.15:
                    a = ('w', CON, a)
                m[pn] = a
                args_t.append(a)
            if not okb:
                continue
            args = [pool[x] if x in pool else lab.real(x) for x in args_t]
            try:
                r = ctor.new(args)
            except Exception as e:
                out.skip('new-raised:' + type(e).__name__)
                continue
            out.ev('history-steps')
            results.append(r)
            # the caller's own argument LIST stays the caller's: writing to it after
            # the call must not reach the instantiation
            d_r = dg.fast_digest(r)
            saved0 = args[0]
            args[0] = pool[rng.choice(U)]
            out.ev('caller-list-writes')
            if dg.fast_digest(r) != d_r:
                out.violation({'rule': 'result-aliases-argument-list', 'op': 'new'},
                              'writing to the list passed to new() changed the instantiation %s' % (
                                  terms.term_str(terms.to_term(r))), {'spec': spec, 'args': [terms.term_str(x) for x in args_t]})
            args[0] = saved0
            k = rng.random()
            try:
                if k < 0.25:
                    r.to_variance_free()
                elif k < 0.4:
                    tp.substitute_type(r, {})
                elif k < 0.6 and results:
                    # ground substitution into the constructor's own generic view
                    own = ctor.new(list(ctor.type_parameters))
                    tp.substitute_type(own, dict(zip(ctor.type_parameters, args)))
                elif k < 0.7:
                    r.to_type_variable_free(lab.f)
                elif k < 0.8 and len(results) > 2:
                    o = rng.choice(results)
                    o.to_variance_free()
            except Exception as e:
                out.skip('op-raised:' + type(e).__name__)
        hits = core.audit()
        for n, desc in hits:
            out.violation({'rule': 'earlier-instantiation-changed', 'op': 'history'},
                          'the %d-th instantiation %s no longer has the value it had when created' % (n, desc),
                          {'spec': spec, 'ordinal': n})
        if len(out.samples) < 2 and results:
            r = results[-1]
            out.sample({'table': [(c['name'], c['params'], c['super']) for c in spec['classes']],
                        'instantiation': terms.term_str(terms.to_term(r)),
                        'supertypes': [terms.term_str(terms.to_term(s)) for s in r.supertypes]})
    return out.result()


def cell_replay(cell):
    out = common.CellOut()
    out.info['note'] = 'typelab C07 witnesses replay by re-running the cell with the same VERIF_SEED'
    return out.result()


# --------------------------------------------------------------------------
# pipeline monitor


class Monitor:
    def __init__(self, out, cell):
        self.out = out
        self.cell = cell
        self.core = Core(out)
        self.pending = None

    def case_begin(self, case):
        self.case = case
        self.core.reset_case()
        self.core.context = {'case': case.ident()}

    def case_end(self, case):
        core = self.core
        if core.attrib is not None:
            return
        hits = core.audit()
        if not hits:
            return
        self.out.ev('audit-hits', len(hits))
        # attribution pass: same case again, audit at every operation boundary
        from vf import engine, boot
        import hephaestus as H
        core.attrib = {n for n, _ in hits}
        core.reset_case()
        core.install_traps()
        try:
            engine.run_case(H, engine.Case(case.lang, case.seed, case.switches, case.max_depth), [_Quiet()],
                            n_transformations=self.cell.get('transformations', 2))
        finally:
            core.remove_traps()
            writes = list(core.writes)
            core.attrib = None
        for n, desc in hits:
            mine = [(op, attr) for (o, op, attr) in writes if o == n]
            by_op = [w for w in mine if w[0] is not None]
            if by_op:
                self.out.violation({'rule': 'earlier-instantiation-changed', 'op': by_op[0][0]},
                                   'instantiation #%d %s was written (attribute %s) during %s' % (
                                       n, desc, by_op[0][1], by_op[0][0]),
                                   {'case': case.ident(), 'ordinal': n, 'writes': mine[:10]})
            elif mine:
                self.out.ev('audit-hit-by-non-monitored-code')
            else:
                self.out.ev('audit-hit-unattributed')
        core.reset_case()


class _Quiet:
    pass


# --------------------------------------------------------------------------


def lab_cells(tier, seed):
    from vf.boot import LANGS
    cells = []
    q = tier == 'quick'
    langs = ['kotlin', 'java'] if q else LANGS
    for lang in langs:
        for lo in range(0, 90, 15 if q else 6):
            cells.append({'family': 'small', 'lang': lang, 'lo': lo, 'hi': lo + (15 if q else 6),
                          'rseed': common.h32(seed, 'c07s', lang, lo), 'steps': 60 if q else 400, 'cap': 30})
    for i in range(12 if q else 64):
        cells.append({'family': 'random', 'lang': LANGS[i % 4], 'count': 3 if q else 8,
                      'rseed': common.h32(seed, 'c07r', i), 'steps': 150 if q else 1200, 'cap': 30})
    return cells


def pipeline_plan(tier, seed):
    from vf.boot import LANGS
    n = 6 if tier == 'quick' else 100
    return [{'lang': lang, 'n': n, 'chunk': 3 if tier == 'quick' else 10} for lang in LANGS]


def finish(agg, tier, lab_events):
    q = tier == 'quick'
    agg.floor('history-steps', 3000 if q else 100000, lab_events)
    agg.floor('supertype-trees', 3000 if q else 100000)
    agg.floor('input-digests', 20000 if q else 500000)
    agg.floor('calls:new', 5000 if q else 100000)
    agg.floor('calls:substitute_type', 5000 if q else 100000)
    agg.floor('audited-instantiations', 3000 if q else 100000)
    agg.floor('empty-map-substitutions', 200 if q else 5000)
    agg.floor('ground-substitutions', 200 if q else 5000)
    return agg.finish(
        rule='judged = outermost calls of TypeConstructor.new / substitute_type / perform_type_substitution / '
             'to_variance_free / to_type_variable_free: typelab histories on SHARED constructor and argument '
             'objects over the small family and random tables, and every such call of real pipeline runs; '
             'distinct non-trivial = distinct (operation, type shape) with a generic supertype chain or nested/'
             'projected arguments',
        assumptions=['instantiation with arguments that mention type variables is not judged for the substitution '
                     'law (perform_type_substitution deliberately leaves them)',
                     'in-place writes by generator code to type parameters it owns are not attributed to C07'])
