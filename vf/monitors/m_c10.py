"""C10 — type unification returns a unifier or nothing.

For every outermost unify_types(target, pattern, factory, same_type) with a
non-empty result sigma:
  U1  pattern[sigma] matches the target (same_type) / one of the target's
      supertypes or the target itself (supertype mode), position by position,
      up to variables sigma leaves open
  U2  at every open position the target's component satisfies the open
      variable's bound
  U3  every sigma(X) satisfies bound(X)[sigma]
Empty results are judged only in typelab, and only for pairs that were built
FROM a unifier and then left unperturbed (then {} is a missed unifier only if
the property demanded completeness - it does not - so those are counted, not
judged)."""
import random

from vf import terms, common
from vf.terms import INV, COV, CON


def match(p, t, sigma_keys, T, opens, path='$'):
    """Does substituted pattern p equal target t up to open variables?
    Returns (True, None) or (False, reason); appends (var-term, component) to opens."""
    if p[0] == 'v' and p[1] not in sigma_keys:
        opens.append((p, t, path))
        return True, None
    if p[0] != t[0]:
        return False, '%s: %s vs %s' % (path, terms.term_str(p), terms.term_str(t))
    k = p[0]
    if k == 'c':
        if p[1] != t[1] or len(p[2]) != len(t[2]):
            return False, '%s: %s vs %s' % (path, terms.term_str(p), terms.term_str(t))
        for i, (a, b) in enumerate(zip(p[2], t[2])):
            ok, why = match(a, b, sigma_keys, T, opens, '%s.%d' % (path, i))
            if not ok:
                return ok, why
        return True, None
    if k == 'w':
        if p[1] != t[1]:
            return False, '%s: projection direction %s vs %s' % (path, terms.term_str(p), terms.term_str(t))
        if (p[2] is None) != (t[2] is None):
            return False, '%s: %s vs %s' % (path, terms.term_str(p), terms.term_str(t))
        if p[2] is None:
            return True, None
        return match(p[2], t[2], sigma_keys, T, opens, path + '.b')
    if p != t:
        if k == 'v' and p[1] == t[1]:
            return True, None
        return False, '%s: %s vs %s' % (path, terms.term_str(p), terms.term_str(t))
    return True, None


def all_supers(x, T, acc=None, fuel=30):
    acc = [] if acc is None else acc
    if fuel <= 0:
        return acc
    try:
        for s in terms.supers_of(x, T):
            if s not in acc:
                acc.append(s)
                all_supers(s, T, acc, fuel - 1)
    except terms.Unknown:
        pass
    return acc


def cause_of(why, t1, t2):
    if why and 'projection direction' in why:
        return 'projection-direction-ignored'
    return 'structure'


def judge(rec, T, out, witness):
    t1, t2, sigma, same_type = rec['t1'], rec['t2'], rec['sigma'], rec['same_type']
    if not sigma:
        out.ev('empty-results')
        return
    out.ev('nonempty-results')
    keys = set(sigma)
    w = dict(witness, target=terms.term_str(t1), pattern=terms.term_str(t2),
             sigma={k: terms.term_str(v) for k, v in sigma.items()}, same_type=same_type,
             t1=t1, t2=t2, sigma_terms=sigma)
    shape = (terms.shape(t1), terms.shape(t2), same_type)
    if any(terms.has_kind(v, terms.UNJUDGED_KINDS) for v in sigma.values()) or \
            terms.has_kind(t1, terms.UNJUDGED_KINDS) or terms.has_kind(t2, terms.UNJUDGED_KINDS):
        out.skip('unjudgeable-kind')
        return
    p = terms.subst(t2, sigma)
    targets = [t1]
    if not same_type:
        targets += all_supers(t1, T)
    best = None
    for tg in targets:
        opens = []
        ok, why = match(p, tg, keys, T, opens)
        if ok:
            best = (tg, opens)
            break
        if best is None:
            first_why = why
            best = False
    if best is False or best is None:
        out.violation({'rule': 'substitute-back', 'mode': 'same' if same_type else 'supertype',
                       'cause': cause_of(first_why, t1, t2)},
                      'unify_types(%s, %s) = %s but the pattern under it is %s (%s)' % (
                          terms.term_str(t1), terms.term_str(t2), w['sigma'], terms.term_str(p), first_why),
                      w, shape)
        return
    bad = False
    for (var, comp, path) in best[1]:
        if var[3] is None:
            continue
        b = terms.subst(var[3], sigma)
        if terms.has_kind(b, ('v',)) or b[0] == 'w':
            out.skip('bound-mentions-open-variable-or-projection')
            continue
        comp2 = comp[2] if comp[0] == 'w' and comp[1] == COV and comp[2] is not None else comp
        r = terms.refsub3(comp2, b, T)
        if r is False:
            bad = True
            out.violation({'rule': 'open-position-bound', 'mode': 'same' if same_type else 'supertype'},
                          'unify_types(%s, %s) = %s leaves %s open at %s although %s is not within its bound %s' % (
                              terms.term_str(t1), terms.term_str(t2), w['sigma'], var[1], path,
                              terms.term_str(comp), terms.term_str(b)), w, shape)
        elif r is None:
            out.skip('bound-unknown')
    for name, v in sigma.items():
        vb = rec['bounds'].get(name)
        if vb is None:
            continue
        b = terms.subst(vb, sigma)
        if terms.has_kind(b, ('v',)) or b[0] == 'w':
            out.skip('bound-mentions-open-variable-or-projection')
            continue
        v2 = v[2] if v[0] == 'w' and v[1] == COV and v[2] is not None else v
        if v2[0] == 'w':
            out.skip('assigned-contravariant-or-star-projection')
            continue
        r = terms.refsub3(v2, b, T)
        if r is False:
            bad = True
            out.violation({'rule': 'assigned-type-outside-bound', 'mode': 'same' if same_type else 'supertype'},
                          'unify_types(%s, %s) assigns %s := %s which is not within the bound %s' % (
                              terms.term_str(t1), terms.term_str(t2), name, terms.term_str(v), terms.term_str(b)),
                          w, shape)
        elif r is None:
            out.skip('bound-unknown')
    if not bad:
        out.ok(shape, nontrivial=t1[0] == 'c' and bool(t1[2]))


def pattern_bounds(t, acc=None):
    """name -> bound term of every variable occurring in pattern t."""
    acc = {} if acc is None else acc
    if t is None:
        return acc
    if t[0] == 'v':
        if t[1] not in acc:
            acc[t[1]] = t[3]
            pattern_bounds(t[3], acc)
    elif t[0] == 'c':
        for a in t[2]:
            pattern_bounds(a, acc)
    elif t[0] == 'w':
        pattern_bounds(t[2], acc)
    return acc


class Core:
    def __init__(self, out):
        from src.ir import type_utils as tu
        self.out = out
        self.tu = tu
        self.depth = 0
        self.records = []
        f = tu.unify_types
        core = self

        def w(t1, t2, factory, same_type=True):
            core.depth += 1
            try:
                r = f(t1, t2, factory, same_type=same_type) if same_type is not True else f(t1, t2, factory)
            except BaseException:
                core.depth -= 1
                if core.depth == 0:
                    core.out.ev('raised')
                raise
            core.depth -= 1
            if core.depth == 0:
                core.observe(t1, t2, factory, same_type, r)
            return r
        w.__name__ = 'unify_types'
        tu.unify_types = w

    def observe(self, t1, t2, factory, same_type, r):
        self.out.ev('calls')
        try:
            a, b = terms.to_term(t1), terms.to_term(t2)
            sigma = {}
            if isinstance(r, dict):
                for k, v in r.items():
                    sigma[str(k.name)] = terms.to_term(v)
            rec = {'t1': a, 't2': b, 'sigma': sigma, 'same_type': bool(same_type),
                   'bounds': pattern_bounds(b), 'objs': (t1, t2, list(r.values()) if isinstance(r, dict) else [])}
            self.records.append(rec)
        except Exception as e:
            self.out.skip('monitor-failed:' + type(e).__name__)


# --------------------------------------------------------------------------
# typelab


def cell_typelab(cell):
    from vf import boot, typelab
    boot.light()
    from src.ir import types as tp, type_utils as tu
    out = common.CellOut()
    core = Core(out)
    rng = random.Random(cell['rseed'])
    lang = cell['lang']
    if cell['family'] == 'small':
        specs = typelab.small_family(lang)[cell['lo']:cell['hi']]
    else:
        specs = [typelab.random_spec(lang, random.Random(common.h32(cell['rseed'], i)))
                 for i in range(cell['count'])]
    for spec in specs:
        lab = typelab.Lab(spec)
        T = lab.T
        out.ev('tables')
        generic = [c for c in spec['classes'] if c.get('params')]
        if not generic:
            continue
        U = lab.ground_terms(1, projections='domain', cap=cell.get('cap', 30), rng=rng)
        U = [x for x in U if lab.within_bounds(x)]
        G = [x for x in U if x[0] == 'c' and x[2]]
        bt = [lab.bterm[k] for k in ('number', 'integer', 'string', 'double')]
        # top-level variables: target and/or pattern is a (bounded) type variable
        bpool = [None] + bt[:3] + [x for x in U if x[0] == 'c'][:4]
        for b1 in bpool:
            for b2 in bpool:
                tv1, tv2 = ('v', 'Q', INV, b1), ('v', 'P', INV, b2)
                grounds = [tv1] + (rng.sample(U, min(3, len(U))) if U else [])
                for target in grounds:
                    try:
                        rt, rp = lab.real(target), lab.real(tv2)
                    except Exception:
                        continue
                    out.ev('pairs:variable-pattern')
                    core.records = []
                    try:
                        tu.unify_types(rt, rp, lab.f)
                    except Exception as e:
                        out.skip('unify-raised:' + type(e).__name__)
                        continue
                    for rec in core.records:
                        judge(rec, T, out, {'spec': spec, 'kind': 'variable-pattern'})
        for it in range(cell.get('iters', 150)):
            # pattern: a generic class applied to variables / nested patterns / ground types
            nvars = rng.randint(1, 3)
            vars_ = []
            for i in range(nvars):
                b = None
                r = rng.random()
                if r < 0.3:
                    b = rng.choice(bt[:2])
                elif r < 0.4 and G:
                    b = rng.choice(G)
                elif r < 0.65 and vars_:
                    # a parameterized bound that mentions an EARLIER pattern variable: X1 : G<.., X0, ..>
                    gc = rng.choice(generic)
                    b = ('c', gc['name'], tuple(rng.choice(vars_) if rng.random() < 0.6 else rng.choice(U)
                                                for _ in gc['params']))
                vars_.append(('v', 'X%d' % i, INV, b))

            def pat(depth=0):
                c = rng.choice(generic)
                args = []
                for (pn, pv, pb) in c['params']:
                    r = rng.random()
                    if r < 0.55:
                        a = rng.choice(vars_)
                    elif r < 0.7 and depth < 1:
                        a = pat(depth + 1)
                    else:
                        a = rng.choice(U)
                    if rng.random() < 0.2 and a[0] != 'w':
                        if pv in (INV, COV) and rng.random() < 0.6:
                            a = ('w', COV, a)
                        elif pv in (INV, CON):
                            a = ('w', CON, a)
                    args.append(a)
                return ('c', c['name'], tuple(args))
            pattern = pat()
            sigma = {}
            for v in vars_:
                vb = None if v[3] is None else terms.subst(v[3], sigma)
                if vb is not None and vb[0] == 'c' and vb[2] and not terms.has_kind(vb, ('v',)) and rng.random() < 0.7:
                    sigma[v[1]] = vb                 # the instantiated bound itself is within the bound
                    continue
                cand = [x for x in rng.sample(U, min(len(U), 20))
                        if vb is None or (not terms.has_kind(vb, ('v',)) and terms.refsub3(x, vb, T) is True)]
                if cand:
                    sigma[v[1]] = rng.choice(cand)
            target = terms.subst(pattern, sigma)
            if terms.has_kind(target, ('v',)):
                continue
            mode = rng.random()
            kind = 'exact'
            if mode < 0.5:
                # perturb one position of the target
                kind = 'perturbed'
                args = list(target[2])
                i = rng.randrange(len(args))
                r = rng.random()
                a = args[i]
                if a[0] == 'w' and a[2] is not None and r < 0.5:
                    args[i] = ('w', CON if a[1] == COV else COV, a[2])        # swapped direction
                elif r < 0.8:
                    args[i] = rng.choice(U)                                    # different argument
                else:
                    args[i] = ('w', COV, a) if a[0] != 'w' else a[2]
                target = ('c', target[1], tuple(args))
            same_type = True
            r = rng.random()
            if r < 0.25:
                # supertype mode: a subclass instantiation whose supertype chain reaches the pattern's class
                subs = [x for x in G + [y for y in U if y[0] == 'c']
                        if x != target and terms.refsub3(x, target, T) is True and x[1] != target[1]]
                if subs:
                    target = rng.choice(subs)
                    same_type = False
                    kind += '+subclass'
            elif r < 0.45:
                # supertype mode, near miss: the head stays, ONE NESTED class-typed argument is replaced by an
                # instantiation of a proper subclass (supertype matching applies to the target itself, never to
                # its type arguments); sometimes the target is left as it is (mode flag alone)
                same_type = False
                kind += '+supertype-mode'
                args = list(target[2])
                idx = [i for i, a in enumerate(args) if a[0] == 'c']
                if idx and rng.random() < 0.8:
                    i = rng.choice(idx)
                    subs = [x for x in G + [y for y in U if y[0] == 'c']
                            if x[1] != args[i][1] and terms.refsub3(x, args[i], T) is True]
                    if subs:
                        args[i] = rng.choice(subs)
                        target = ('c', target[1], tuple(args))
                        kind += '+nested-subclass'
            try:
                rt, rp = lab.real(target), lab.real(pattern)
            except Exception as e:
                out.skip('cannot-build:' + type(e).__name__)
                continue
            if terms.to_term(rt) != target or terms.to_term(rp) != pattern:
                out.skip('term-roundtrip-mismatch')
                continue
            out.ev('pairs:' + kind)
            core.records = []
            try:
                res = tu.unify_types(rt, rp, lab.f, same_type=same_type)
            except Exception as e:
                out.skip('unify-raised:' + type(e).__name__)
                continue
            for rec in core.records:
                judge(rec, T, out, {'spec': spec, 'kind': kind})
            if len(out.samples) < 3 and res:
                out.sample({'target': terms.term_str(target), 'pattern': terms.term_str(pattern),
                            'same_type': same_type, 'kind': kind,
                            'sigma': {str(k.name): terms.term_str(terms.to_term(v)) for k, v in res.items()}})
    return out.result()


def cell_replay(cell):
    from vf import boot, typelab
    boot.light()
    from src.ir import type_utils as tu
    out = common.CellOut()
    w = cell['witness']

    def tup(x):
        return tuple(tup(e) for e in x) if isinstance(x, list) else x
    spec = w['spec']
    for c in spec['classes']:
        c['params'] = [tuple(tup(p)) for p in c['params']]
        c['super'] = tup(c['super']) if c['super'] is not None else None
    lab = typelab.Lab(spec)
    core = Core(out)
    t1, t2 = tup(w['t1']), tup(w['t2'])
    tu.unify_types(lab.real(t1), lab.real(t2), lab.f, same_type=w['same_type'])
    for rec in core.records:
        judge(rec, lab.T, out, {'spec': spec})
    return out.result()


# --------------------------------------------------------------------------
# pipeline monitor


class Monitor:
    def __init__(self, out, cell):
        self.out = out
        self.core = Core(out)

    def case_begin(self, case):
        self.case = case
        self.core.records = []
        self.program = None

    def after_generate(self, program):
        self.program = program

    def case_end(self, case):
        if self.program is None:
            self.core.records = []
            return
        T = terms.Table.from_program(self.program)
        seen = set()
        for rec in self.core.records:
            key = (rec['t1'], rec['t2'], tuple(sorted(rec['sigma'].items())), rec['same_type'])
            if key in seen:
                continue
            seen.add(key)
            for o in (rec['objs'][0], rec['objs'][1]) + tuple(rec['objs'][2]):
                T.scan(o)
            judge(rec, T, self.out, {'case': case.ident()})
        self.core.records = []


def lab_cells(tier, seed):
    from vf.boot import LANGS
    cells = []
    q = tier == 'quick'
    for lang in (['kotlin', 'java'] if q else LANGS):
        for lo in range(0, 90, 15 if q else 6):
            cells.append({'family': 'small', 'lang': lang, 'lo': lo, 'hi': lo + (15 if q else 6),
                          'rseed': common.h32(seed, 'c10s', lang, lo), 'iters': 120 if q else 1500, 'cap': 30})
    for i in range(12 if q else 64):
        cells.append({'family': 'random', 'lang': LANGS[i % 4], 'count': 4 if q else 10,
                      'rseed': common.h32(seed, 'c10r', i), 'iters': 400 if q else 4000, 'cap': 30})
    return cells


def pipeline_plan(tier, seed):
    from vf.boot import LANGS
    n = 8 if tier == 'quick' else 150
    return [{'lang': lang, 'n': n, 'chunk': 4 if tier == 'quick' else 15} for lang in LANGS]


def finish(agg, tier, lab_events):
    q = tier == 'quick'
    agg.floor('calls', 10000 if q else 300000)
    agg.floor('nonempty-results', 2500 if q else 60000)
    agg.floor('pairs:exact', 3000 if q else 80000, lab_events)
    agg.floor('pairs:perturbed', 3000 if q else 80000, lab_events)
    return agg.finish(
        rule='typelab: (target, pattern) pairs built FROM a unifier (pattern with 1-3 bounded/unbounded variables, '
             'nested generics, projections; sigma drawn within bounds; target = pattern[sigma]) and then left exact, '
             'perturbed in one position (different argument, swapped projection direction, added/removed projection) '
             'or replaced by a subclass (supertype mode); pipeline: every distinct outermost unify_types call of real '
             'runs. judged = non-empty results; distinct non-trivial = distinct (target shape, pattern shape, mode) '
             'with a generic target',
        assumptions=['completeness is not demanded: an empty result is never a violation',
                     'bound checks the oracle cannot decide (type variables, capture) are unjudged'])
