"""C08 — instantiation helpers pick type arguments within bounds and allowed variance.

Every call (outermost and nested) of instantiate_type_constructor and
instantiate_parameterized_function is judged:
  P1  one argument per parameter; the returned map is total on the parameters
  P2  each argument (for `out X`: X) is a subtype of the declared bound after
      substituting the returned map  [unjudged: contravariant/star projections,
      bounds that are projections or still mention a variable, oracle unknown]
  P3  no argument is primitive or an uninstantiated generic class
  P4  a pre-assignment that is consistent with the bounds is returned unchanged
      or wrapped in a projection P5 permits
  P5  a projection the helper introduced sits only where allowed: the caller's
      variance choices after the documented preprocessing (PECS for function
      types, disable_variance*), the declared variance (no `in` on a covariant
      parameter, no `out` on a contravariant one), the global switches, and not
      on a parameter that another parameter's bound mentions."""
import random

from vf import terms, common
from vf.terms import INV, COV, CON


def param_terms(params):
    return [(str(p.name), terms.var_of(p.variance), None if p.bound is None else terms.to_term(p.bound))
            for p in params]


def own_assignments(params, type_var_map):
    """name -> term of what the map assigns to THESE parameters (looked up the
    way the helpers do: a caller's map may also hold equally named parameters of
    other declarations)."""
    out = {}
    for p in params:
        v = (type_var_map or {}).get(p)
        if v is not None:
            out[str(p.name)] = terms.to_term(v)
    return out


def wildcard_ids(objs):
    from src.ir import types as tp
    ids = set()
    stack = list(objs)
    n = 0
    while stack and n < 5000:
        o = stack.pop()
        n += 1
        if isinstance(o, tp.WildCardType):
            ids.add(id(o))
            if o.bound is not None:
                stack.append(o.bound)
        elif isinstance(o, tp.ParameterizedType):
            stack.extend(o.type_args)
        elif isinstance(o, tp.TypeParameter) and o.bound is not None:
            stack.append(o.bound)
    return ids


def effective_choices(name, params, vc, enable_pecs, dvf, dv):
    """The documented preprocessing of instantiate_type_constructor."""
    is_fun = name.startswith('Function')
    if enable_pecs and is_fun:
        vc = {p[0]: (False, True) for p in params[:-1]}
        vc[params[-1][0]] = (True, False)
    elif vc is not None:
        vc = {str(k.name): tuple(v) for k, v in vc.items()}
    if dv or (dvf and is_fun):
        vc = {p[0]: (False, False) for p in params}
    return vc


class Core:
    def __init__(self, out):
        from src.ir import type_utils as tu
        from src.generators.config import cfg
        self.tu, self.cfg, self.out = tu, cfg, out
        self.records = []
        core = self
        f_itc = tu.instantiate_type_constructor

        def instantiate_type_constructor(type_constructor, types, only_regular=True, type_var_map=None,
                                         variance_choices=None, enable_pecs=True,
                                         disable_variance_functions=False, disable_variance=False):
            pre = None
            try:
                params = param_terms(type_constructor.type_parameters)
                pre = {'kind': 'itc', 'ctor': terms.cname(type_constructor), 'params': params,
                       'pre': own_assignments(type_constructor.type_parameters, type_var_map),
                       'in_wild': wildcard_ids(list((type_var_map or {}).values()) + [
                           t for t in types if hasattr(t, 'is_wildcard')]),
                       'vc': effective_choices(str(type_constructor.name), params, variance_choices,
                                               enable_pecs, disable_variance_functions, disable_variance),
                       'usv': bool(core.cfg.dis.use_site_variance),
                       'usc': bool(core.cfg.dis.use_site_contravariance)}
            except Exception as e:
                core.out.skip('monitor-pre-failed:' + type(e).__name__)
            core.depth = getattr(core, 'depth', 0) + 1
            try:
                r = f_itc(type_constructor, types, only_regular, type_var_map, variance_choices, enable_pecs,
                          disable_variance_functions, disable_variance)
            except BaseException:
                core.out.ev('raised:instantiate_type_constructor')
                raise
            finally:
                core.depth -= 1
            core.out.ev('calls:instantiate_type_constructor')
            if pre is not None:
                try:
                    ptype, m = r
                    pre['args'] = [terms.to_term(a) for a in ptype.type_args]
                    pre['arg_prim'] = [bool(getattr(a, 'primitive', False)) for a in ptype.type_args]
                    pre['arg_new_wild'] = [hasattr(a, 'is_wildcard') and a.is_wildcard() and id(a) not in pre['in_wild']
                                           for a in ptype.type_args]
                    pre['map'] = own_assignments(type_constructor.type_parameters, m)
                    pre['fullmap'] = {str(k.name): terms.to_term(v) for k, v in m.items()}
                    pre['objs'] = list(ptype.type_args) + [type_constructor]
                    pre['result'] = terms.to_term(ptype)
                    core.records.append(pre)
                except Exception as e:
                    core.out.skip('monitor-post-failed:' + type(e).__name__)
            return r
        tu.instantiate_type_constructor = instantiate_type_constructor
        f_ipf = tu.instantiate_parameterized_function

        def instantiate_parameterized_function(type_parameters, types, only_regular=True, type_var_map=None):
            pre = None
            try:
                pre = {'kind': 'ipf', 'ctor': '<function>', 'params': param_terms(type_parameters),
                       'pre': own_assignments(type_parameters, type_var_map),
                       'in_wild': wildcard_ids(list((type_var_map or {}).values())),
                       'vc': None, 'usv': bool(core.cfg.dis.use_site_variance),
                       'usc': bool(core.cfg.dis.use_site_contravariance)}
            except Exception as e:
                core.out.skip('monitor-pre-failed:' + type(e).__name__)
            core.depth = getattr(core, 'depth', 0) + 1
            try:
                r = f_ipf(type_parameters, types, only_regular, type_var_map)
            except BaseException:
                core.out.ev('raised:instantiate_parameterized_function')
                raise
            finally:
                core.depth -= 1
            core.out.ev('calls:instantiate_parameterized_function')
            if pre is not None:
                try:
                    vals = [r.get(p) for p in type_parameters]
                    pre['args'] = [terms.to_term(a) if a is not None else ('none',) for a in vals]
                    pre['arg_prim'] = [bool(getattr(a, 'primitive', False)) for a in vals]
                    pre['arg_new_wild'] = [a is not None and hasattr(a, 'is_wildcard') and a.is_wildcard()
                                           and id(a) not in pre['in_wild'] for a in vals]
                    pre['map'] = own_assignments(type_parameters, r)
                    pre['fullmap'] = {str(k.name): terms.to_term(v) for k, v in r.items()}
                    pre['objs'] = [a for a in vals if a is not None]
                    pre['result'] = None
                    core.records.append(pre)
                except Exception as e:
                    core.out.skip('monitor-post-failed:' + type(e).__name__)
            return r
        tu.instantiate_parameterized_function = instantiate_parameterized_function
        # direct calls of the inner helper (the generator instantiates a class together with one of its
        # generic methods this way); calls made by the two public helpers above are theirs, not judged twice
        f_ctva = tu._compute_type_variable_assignments
        core.depth = 0

        def _compute_type_variable_assignments(type_parameters, types, type_var_map=None, variance_choices=None,
                                               for_type_constructor=True):
            if core.depth:
                return f_ctva(type_parameters, types, type_var_map, variance_choices, for_type_constructor)
            pre = None
            try:
                params = param_terms(type_parameters)
                vc = None if variance_choices is None else {str(k.name): tuple(v) for k, v in variance_choices.items()}
                pre = {'kind': 'ctva', 'ctor': '<class+method>', 'params': params,
                       'pre': own_assignments(type_parameters, type_var_map),
                       'in_wild': wildcard_ids(list((type_var_map or {}).values()) + [
                           t for t in types if hasattr(t, 'is_wildcard')]),
                       'vc': vc if for_type_constructor else None,
                       'usv': bool(core.cfg.dis.use_site_variance),
                       'usc': bool(core.cfg.dis.use_site_contravariance)}
            except Exception as e:
                core.out.skip('monitor-pre-failed:' + type(e).__name__)
            core.depth += 1
            try:
                r = f_ctva(type_parameters, types, type_var_map, variance_choices, for_type_constructor)
            except BaseException:
                core.out.ev('raised:_compute_type_variable_assignments')
                raise
            finally:
                core.depth -= 1
            core.out.ev('calls:_compute_type_variable_assignments(direct)')
            if pre is not None:
                try:
                    t_args, m = r
                    vals = [m.get(p_) for p_ in type_parameters]
                    pre['args'] = [terms.to_term(a) if a is not None else ('none',) for a in vals]
                    pre['arg_prim'] = [bool(getattr(a, 'primitive', False)) for a in vals]
                    pre['arg_new_wild'] = [a is not None and hasattr(a, 'is_wildcard') and a.is_wildcard()
                                           and id(a) not in pre['in_wild'] for a in vals]
                    pre['map'] = own_assignments(type_parameters, m)
                    pre['fullmap'] = {str(k.name): terms.to_term(v) for k, v in m.items()}
                    pre['objs'] = [a for a in vals if a is not None]
                    pre['result'] = None
                    core.records.append(pre)
                except Exception as e:
                    core.out.skip('monitor-post-failed:' + type(e).__name__)
            return r
        tu._compute_type_variable_assignments = _compute_type_variable_assignments


def strip_cov(a):
    return a[2] if a[0] == 'w' and a[1] == COV and a[2] is not None else a


def pre_consistent(rec, T):
    """Are the caller's pre-assignments within their bounds (following chains of
    dependent bounds through unassigned parameters)?  Unknown counts as no."""
    pre = rec['pre']
    if not pre:
        return True
    byname = {p[0]: p for p in rec['params']}
    for p in rec['params']:
        if p[0] not in pre or p[2] is None:
            continue
        x = strip_cov(pre[p[0]])
        if x[0] == 'w':
            return False
        b = terms.subst(p[2], pre)
        hops = 0
        while b is not None and b[0] == 'v' and b[1] in byname and hops < 8:
            nb = byname[b[1]][2]
            b = None if nb is None else terms.subst(nb, pre)
            hops += 1
        if b is None:
            continue
        if terms.has_kind(b, ('v',)) or b[0] == 'w':
            return False
        if terms.refsub3(x, strip_cov(b), T) is not True:
            return False
    return True


def judge(rec, T, out, witness):
    params, args, m = rec['params'], rec['args'], rec['map']
    w = dict(witness, helper=rec['kind'], constructor=rec['ctor'],
             params=[(p[0], p[1], None if p[2] is None else terms.term_str(p[2])) for p in params],
             args=[terms.term_str(a) for a in args],
             pre={k: terms.term_str(v) for k, v in rec['pre'].items()},
             choices=rec['vc'], switches={'use_site_variance_disabled': rec['usv'],
                                          'contravariance_disabled': rec['usc']})
    shape = (rec['kind'], tuple((p[1], None if p[2] is None else terms.shape(p[2])) for p in params),
             tuple(terms.shape(a) for a in args), bool(rec['pre']))
    bad = False
    mech0 = {'helper': rec['kind']}
    # P1
    if len(args) != len(params) or any(a == ('none',) for a in args) or any(p[0] not in m for p in params):
        out.violation(dict(mech0, rule='P1-arity-or-partial-map'),
                      '%s: %d parameters, %d arguments, map keys %s' % (
                          rec['ctor'], len(params), len(args), sorted(m)), w, shape)
        return
    mentioned = set()
    for p in params:
        if p[2] is not None:
            mentioned |= terms.free_vars(p[2])
    pre_ok = pre_consistent(rec, T)
    for i, (p, a) in enumerate(zip(params, args)):
        # P3
        if rec['arg_prim'][i] or (a[0] == 'w' and False):
            bad = True
            out.violation(dict(mech0, rule='P3-primitive-argument'),
                          '%s: argument %d is the primitive %s' % (rec['ctor'], i, terms.term_str(a)), w, shape)
        if a[0] == 'tc' or (a[0] == 'w' and a[2] is not None and a[2][0] == 'tc'):
            bad = True
            out.violation(dict(mech0, rule='P3-bare-constructor-argument'),
                          '%s: argument %d is the uninstantiated generic class %s' % (rec['ctor'], i, a), w, shape)
            continue
        # P2
        if p[2] is not None:
            full = dict(rec.get('fullmap') or {})
            full.update(m)
            b = terms.subst(p[2], full)
            x = strip_cov(a)
            if p[0] in rec['pre']:
                out.skip('P2:pre-assigned-by-caller')
            elif not pre_ok:
                out.skip('P2:caller-pre-assignments-not-known-consistent')
            elif x[0] == 'w':
                out.skip('P2:contravariant-or-star-projection')
            elif b[0] == 'w':
                out.skip('P2:bound-is-projection')
            elif terms.has_kind(b, ('v',)):
                out.skip('P2:bound-still-mentions-a-variable')
            else:
                bb = strip_cov(b)
                r = terms.refsub3(x, bb, T)
                if r is False:
                    bad = True
                    cause = 'chosen-param'
                    if x[0] == 'c' and bb[0] == 'c' and x[1] == bb[1] and x[1] in T.classes and any(
                            q[2] is not None and q[2][0] == 'v' for q in T.classes[x[1]][0]):
                        cause = 'bound-class-has-dependent-parameters'
                    out.violation(dict(mech0, rule='P2-argument-outside-bound', cause=cause),
                                  '%s: argument %d = %s is not within the bound %s of %s' % (
                                      rec['ctor'], i, terms.term_str(a), terms.term_str(b), p[0]), w, shape)
                elif r is None:
                    out.skip('P2:oracle-unknown')
                else:
                    out.ev('P2-confirmed')
        # P5
        if rec['arg_new_wild'][i] and a[0] == 'w':
            out.ev('projections-introduced')
            why = None
            vc = rec['vc']
            if a[2] is None:
                why = None            # star projections are not what P5 speaks about
            else:
                can_cov, can_con = (True, True)
                if vc is None:
                    can_cov = can_con = False
                    why = 'no variance choices were given'
                else:
                    can_cov, can_con = vc.get(p[0], (True, True))
                if rec['usv']:
                    can_cov = can_con = False
                if rec['usc']:
                    can_con = False
                if p[1] == COV:
                    can_con = False
                if p[1] == CON:
                    can_cov = False
                if p[0] in mentioned:
                    can_cov = can_con = False
                if a[1] == COV and not can_cov:
                    why = why or 'covariant projection not permitted here'
                elif a[1] == CON and not can_con:
                    why = why or 'contravariant projection not permitted here'
                else:
                    why = None
            if why:
                bad = True
                reason = ('mentioned-in-bound' if p[0] in mentioned else
                          'switch' if (rec['usv'] or (rec['usc'] and a[1] == CON)) else
                          'declared-variance' if (p[1] == COV and a[1] == CON) or (p[1] == CON and a[1] == COV)
                          else 'caller-choices')
                out.violation(dict(mech0, rule='P5-projection-not-permitted', cause=reason),
                              '%s: argument %d = %s (%s; parameter %s, choices %s)' % (
                                  rec['ctor'], i, terms.term_str(a), why, p[0], vc), w, shape)
    # P4
    if rec['pre']:
        if not pre_ok:
            out.skip('P4:pre-assignment-not-known-consistent')
        else:
            for p, a in zip(params, args):
                if p[0] not in rec['pre']:
                    continue
                out.ev('P4-checked')
                want = rec['pre'][p[0]]
                if a == want or (a[0] == 'w' and a[2] == want):
                    continue
                bad = True
                dep_proj = any(q[0] in rec['pre'] and q[2] is not None and q[2][0] == 'v'
                               and rec['pre'][q[0]][0] == 'w' for q in params)
                out.violation(dict(mech0, rule='P4-pre-assignment-changed',
                                   cause='projection-pre-assigned-to-dependent-parameter' if dep_proj else 'plain'),
                              '%s: %s was pre-assigned %s but the result has %s' % (
                                  rec['ctor'], p[0], terms.term_str(want), terms.term_str(a)), w, shape)
    if not bad:
        out.ok(shape, nontrivial=any(p[2] is not None or p[1] != INV for p in params) or bool(rec['pre']))


def _generator_path(cell, spec, lab, generic, rng, core, out, U):
    """The generator's own route into the inner helper: Generator._get_matching_class instantiates a
    generic class TOGETHER with a generic method of it by calling _compute_type_variable_assignments
    with a pool it assembles itself.  Driven on the spec's real class declarations."""
    from src.ir import ast, types as tp, context as ctxmod
    from src import utils
    from src.generators.config import cfg
    try:
        from src.generators.generator import Generator
    except Exception as e:                       # pragma: no cover
        out.skip('generator-import-failed:' + type(e).__name__)
        return
    lang = cell['lang']
    ret_t = lab.f.get_string_type()
    saved = {}
    try:
        gen = Generator(language=lang)
        gen.context = ctxmod.Context()
        for name, d in lab.decls.items():
            gen.context.add_class(ast.GLOBAL_NAMESPACE, name, d)
        gen.namespace = ast.GLOBAL_NAMESPACE + ('main',)
        for it in range(cell.get('gen_iters', 6)):
            c = rng.choice(generic)
            decl = lab.decls[c['name']]
            fparams = []
            for j in range(rng.randint(1, 2)):
                b = None
                r = rng.random()
                if r < 0.3 and U:
                    b = lab.real(rng.choice(U))
                elif r < 0.45 and fparams:
                    b = fparams[0]
                elif r < 0.6 and decl.type_parameters:
                    b = rng.choice(decl.type_parameters)
                fparams.append(tp.TypeParameter('F_X%d' % j, tp.Invariant, b))
            fn = ast.FunctionDeclaration('vfm%d' % it, params=[], ret_type=ret_t, body=ast.StringConstant('x'),
                                         func_type=ast.FunctionDeclaration.CLASS_METHOD, type_parameters=fparams)
            saved[c['name']] = list(decl.functions)
            decl.functions = [fn]
            cfg.dis.use_site_variance = rng.random() < 0.25
            cfg.dis.use_site_contravariance = rng.random() < 0.25
            for k in range(cell.get('gen_seeds', 4)):
                utils.random.r.seed(common.h32(cell['rseed'], 'gp', it, k))
                core.records = []
                out.ev('generator-path:calls')
                try:
                    gen._get_matching_class(ret_t, subtype=False, attr_name='functions')
                except Exception as e:
                    out.skip('generator-path-raised:' + type(e).__name__)
                for rec in core.records:
                    if rec['kind'] == 'ctva':
                        out.ev('generator-path:direct-helper-calls-judged')
                    judge(rec, lab.T, out, {'spec': spec, 'route': 'Generator._get_matching_class'})
            decl.functions = saved.pop(c['name'])
    finally:
        for n, fs in saved.items():
            lab.decls[n].functions = fs
        cfg.dis.use_site_variance = False
        cfg.dis.use_site_contravariance = False
        core.records = []


def cell_typelab(cell):
    from vf import boot, typelab
    boot.light()
    from src.ir import types as tp, type_utils as tu
    from src import utils
    from src.generators.config import cfg
    out = common.CellOut()
    core = Core(out)
    rng = random.Random(cell['rseed'])
    lang = cell['lang']
    if cell['family'] == 'small':
        specs = typelab.small_family(lang)[cell['lo']:cell['hi']]
    else:
        specs = [typelab.random_spec(lang, random.Random(common.h32(cell['rseed'], i)))
                 for i in range(cell['count'])]
    for spec in specs:
        lab = typelab.Lab(spec)
        out.ev('tables')
        generic = [c for c in spec['classes'] if c.get('params')]
        U = lab.ground_terms(1, projections='domain', cap=30, rng=rng)
        U = [x for x in U if lab.within_bounds(x) and x[0] != 'w']
        pool_decl = list(lab.decls.values()) + list(lab.f.get_non_nothing_types())
        pool_type = [d.get_type() for d in lab.decls.values()] + list(lab.f.get_non_nothing_types()) + \
            lab.f.get_function_types(2)
        ctors = [(c, lab.ctype[c['name']]) for c in generic]
        ctors.append((None, lab.f.get_function_type(rng.randint(0, 2))))
        ctors.append((None, lab.f.get_array_type()))
        for it in range(cell.get('iters', 60)):
            c, ctor = rng.choice(ctors)
            cfg.dis.use_site_variance = rng.random() < 0.25
            cfg.dis.use_site_contravariance = rng.random() < 0.25
            utils.random.r.seed(common.h32(cell['rseed'], 'it', it))
            pre = None
            if c is not None and rng.random() < 0.5:
                pre = {}
                m = {}
                for (pn, pv, pb), p in zip(c['params'], ctor.type_parameters):
                    if rng.random() < 0.5:
                        cands = U
                        if pb is not None and rng.random() < 0.85:
                            b = terms.subst(pb, m)
                            cands = [x for x in rng.sample(U, min(len(U), 25))
                                     if not terms.has_kind(b, ('v',)) and terms.refsub3(x, b, lab.T) is True]
                        if cands:
                            x = rng.choice(cands)
                            if rng.random() < 0.15 and pv in (INV, COV):
                                x = ('w', COV, x)
                            m[pn] = x
                            try:
                                pre[p] = lab.real(x)
                            except Exception:
                                pass
            vc = None
            r = rng.random()
            if r < 0.4:
                vc = {}
            elif r < 0.8:
                vc = {p: (rng.random() < 0.5, rng.random() < 0.5) for p in ctor.type_parameters
                      if rng.random() < 0.7}
            kw = {'enable_pecs': rng.random() < 0.7, 'disable_variance_functions': rng.random() < 0.2,
                  'disable_variance': rng.random() < 0.15}
            pool = pool_decl if rng.random() < 0.5 else pool_type
            core.records = []
            try:
                tu.instantiate_type_constructor(ctor, pool, type_var_map=pre, variance_choices=vc, **kw)
            except Exception as e:
                out.skip('itc-raised:' + type(e).__name__)
            for rec in core.records:
                judge(rec, lab.T, out, {'spec': spec})
            # a parameterized function over the same pool: fresh parameters, dependent bounds
            fparams = []
            for j in range(rng.randint(1, 3)):
                b = None
                r = rng.random()
                if r < 0.3:
                    b = lab.real(rng.choice(U))
                elif r < 0.5 and fparams:
                    b = rng.choice(fparams)
                fparams.append(tp.TypeParameter('F%d' % j, tp.Invariant, b))
            fpre = None
            if rng.random() < 0.3:
                fpre = {fparams[0]: lab.real(rng.choice(U))}
            core.records = []
            try:
                tu.instantiate_parameterized_function(fparams, pool, type_var_map=fpre)
            except Exception as e:
                out.skip('ipf-raised:' + type(e).__name__)
            for rec in core.records:
                judge(rec, lab.T, out, {'spec': spec})
        cfg.dis.use_site_variance = False
        cfg.dis.use_site_contravariance = False
        if generic:
            _generator_path(cell, spec, lab, generic, rng, core, out, U)
        if len(out.samples) < 2 and ctors:
            c, ctor = ctors[0]
            utils.random.r.seed(7)
            try:
                t, mm = tu.instantiate_type_constructor(ctor, pool_type, variance_choices={})
                out.sample({'constructor': str(ctor), 'result': terms.term_str(terms.to_term(t))})
            except Exception:
                pass
            core.records = []
    return out.result()


def cell_replay(cell):
    out = common.CellOut()
    out.info['note'] = 'typelab C08 witnesses replay by re-running the check with the same VERIF_SEED'
    return out.result()


class Monitor:
    def __init__(self, out, cell):
        self.out = out
        self.core = Core(out)

    def case_begin(self, case):
        self.case = case
        self.core.records = []
        self.program = None

    def after_generate(self, program):
        self.program = program

    def case_end(self, case):
        if self.program is None:
            self.core.records = []
            return
        T = terms.Table.from_program(self.program)
        for rec in self.core.records:
            for o in rec['objs']:
                T.scan(o)
            judge(rec, T, self.out, {'case': case.ident()})
        self.core.records = []


def lab_cells(tier, seed):
    from vf.boot import LANGS
    cells = []
    q = tier == 'quick'
    for lang in (['kotlin', 'java'] if q else LANGS):
        for lo in range(0, 90, 15 if q else 6):
            cells.append({'family': 'small', 'lang': lang, 'lo': lo, 'hi': lo + (15 if q else 6),
                          'rseed': common.h32(seed, 'c08s', lang, lo), 'iters': 40 if q else 500})
    for i in range(12 if q else 64):
        cells.append({'family': 'random', 'lang': LANGS[i % 4], 'count': 4 if q else 10,
                      'rseed': common.h32(seed, 'c08r', i), 'iters': 150 if q else 1500})
    return cells


def pipeline_plan(tier, seed):
    from vf.boot import LANGS, SWITCHES
    n = 6 if tier == 'quick' else 100
    p = [{'lang': lang, 'n': n, 'chunk': 3 if tier == 'quick' else 10} for lang in LANGS]
    p += [{'lang': lang, 'n': n // 2, 'chunk': 3 if tier == 'quick' else 10, 'switches': [SWITCHES[1]], 'tag': 'nocontra'}
          for lang in LANGS]
    # generation only (cheap): rare generator paths that call the helpers with their own pools, e.g.
    # _get_matching_class -> _compute_type_variable_assignments (about 1 program in 40 reaches it);
    # Java and Groovy are the languages with primitive builtins (P3)
    q = tier == 'quick'
    for lang in LANGS:
        big = lang in ('java', 'groovy')
        p.append({'lang': lang, 'n': (90 if big else 30) if q else (700 if big else 300), 'chunk': 15 if q else 50,
                  'translate': False, 'inject': False, 'transformations': 0, 'tag': 'genonly'})
    return p


def finish(agg, tier, lab_events):
    q = tier == 'quick'
    agg.floor('calls:instantiate_type_constructor', 10000 if q else 300000)
    agg.floor('calls:instantiate_parameterized_function', 3000 if q else 80000)
    agg.floor('P2-confirmed', 3000 if q else 80000)
    agg.floor('projections-introduced', 1500 if q else 40000)
    agg.floor('generator-path:direct-helper-calls-judged', 300 if q else 5000)
    agg.floor('P4-checked', 500 if q else 15000)
    return agg.finish(
        rule='typelab: every generic class of the small family and of random tables (bounded, mutually dependent and '
             'variant parameters), function types and arrays x random partial pre-assignments x variance-choice '
             'maps x the switch settings x the two pool shapes the callers pass (declarations+builtins, '
             'types+builtins+function types); fresh dependent function type parameters for '
             'instantiate_parameterized_function; pipeline: every call (outermost and nested) of real runs. '
             'judged = calls; distinct non-trivial = distinct (helper, parameter shapes, argument shapes, '
             'pre-assigned?) with a bounded/variant parameter or a pre-assignment',
        assumptions=['P2 is unjudged for contravariant/star projections, projected bounds, bounds that still mention '
                     'a parameter of the same declaration after substitution, and where the oracle cannot decide',
                     'P4 is judged only when the pre-assignments are themselves within their bounds'])
