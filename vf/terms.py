"""Structural terms, class tables and the declarative reference subtype relation
(DESIGN 4.1).  Nothing here calls is_subtype / type_utils of the code under
test: IR objects are only *read* (name, type_args, bound, variance, python
class) at the moment of observation and turned into hashable terms.

  ('bot',)                              bottom
  ('b', K)                              builtin, K = python class name of the builtin
  ('c', N, (args...))                   class type; N = name, or name@CtorClass for builtin constructors
  ('v', name, variance, bound|None)     type variable
  ('w', variance, bound|None)           use-site projection; ('w', 0, None) is the star projection
  ('tc', N) | ('other', ...) | ('none',) | ('deep',)   never judged
"""
INV, COV, CON = 0, 1, 2
UNJUDGED_KINDS = ('tc', 'other', 'none', 'deep')


class Unknown(Exception):
    pass


def _tp():
    import src.ir.types as tp
    return tp


def var_of(v):
    return getattr(v, 'value', 0) if v is not None else 0


def cname(t):
    """Class key of a parameterized type / constructor."""
    tp = _tp()
    tc = getattr(t, 't_constructor', t)
    if isinstance(tc, tp.Builtin):
        return '%s@%s' % (tc.name, type(tc).__name__)
    return str(t.name)


def to_term(t, depth=0):
    tp = _tp()
    if t is None:
        return ('none',)
    if depth > 14:
        return ('deep',)
    if isinstance(t, tp.WildCardType):
        return ('w', var_of(t.variance),
                None if t.bound is None else to_term(t.bound, depth + 1))
    if isinstance(t, tp.TypeParameter):
        return ('v', str(t.name), var_of(t.variance),
                None if t.bound is None else to_term(t.bound, depth + 1))
    if isinstance(t, tp.ParameterizedType):
        return ('c', cname(t), tuple(to_term(a, depth + 1) for a in t.type_args))
    if isinstance(t, tp.TypeConstructor):
        return ('tc', cname(t))
    if isinstance(t, tp.Builtin):
        if type(t).__name__ == 'NothingType' or type(t).__name__ == 'NullType':
            return ('bot',)
        return ('b', type(t).__name__)
    if isinstance(t, tp.NothingType):
        return ('bot',)
    if isinstance(t, tp.SimpleClassifier):
        return ('c', str(t.name), ())
    return ('other', type(t).__name__, str(getattr(t, 'name', '?')))


def mentions_primitive(t, depth=0):
    tp = _tp()
    if t is None or depth > 14:
        return False
    if getattr(t, 'primitive', False):
        return True
    if isinstance(t, tp.ParameterizedType):
        return any(mentions_primitive(a, depth + 1) for a in t.type_args)
    if isinstance(t, (tp.WildCardType, tp.TypeParameter)):
        return mentions_primitive(t.bound, depth + 1)
    return False


def term_str(x):
    k = x[0]
    if k == 'bot':
        return 'Nothing'
    if k == 'b':
        return x[1].replace('Type', '')
    if k == 'c':
        n = x[1].split('@')[0]
        return n if not x[2] else '%s<%s>' % (n, ', '.join(term_str(a) for a in x[2]))
    if k == 'v':
        pre = {0: '', 1: 'out ', 2: 'in '}[x[2]]
        return pre + x[1] + ('' if x[3] is None else ' <: ' + term_str(x[3]))
    if k == 'w':
        if x[2] is None:
            return '*'
        return {0: '', 1: 'out ', 2: 'in '}[x[1]] + term_str(x[2])
    return '<%s>' % ':'.join(map(str, x))


def shape(x, names=None):
    """The term with identifiers replaced by first-occurrence indices."""
    if names is None:
        names = {}
    k = x[0]
    if k == 'c':
        i = names.setdefault(('c', x[1]), len(names))
        return ('c', i, tuple(shape(a, names) for a in x[2]))
    if k == 'v':
        i = names.setdefault(('v', x[1]), len(names))
        return ('v', i, x[2], None if x[3] is None else shape(x[3], names))
    if k == 'w':
        return ('w', x[1], None if x[2] is None else shape(x[2], names))
    if k == 'b':
        i = names.setdefault(('b', x[1]), len(names))
        return ('b', i)
    return (k,)


def has_kind(x, kinds):
    if x is None:
        return False
    if x[0] in kinds:
        return True
    if x[0] == 'c':
        return any(has_kind(a, kinds) for a in x[2])
    if x[0] == 'w':
        return has_kind(x[2], kinds)
    if x[0] == 'v':
        return has_kind(x[3], kinds)
    return False


def free_vars(x, acc=None):
    acc = set() if acc is None else acc
    if x is None:
        return acc
    if x[0] == 'v':
        acc.add(x[1])
        free_vars(x[3], acc)
    elif x[0] == 'c':
        for a in x[2]:
            free_vars(a, acc)
    elif x[0] == 'w':
        free_vars(x[2], acc)
    return acc


# --------------------------------------------------------------------------


class Table:
    """name -> (params [(name, variance, bound-term)], supers [term over params])"""

    def __init__(self, top=None):
        self.classes = {}
        self.builtins = {}     # python class name -> [super term]
        self.top = top         # python class name of the language's top type
        self.kinds = {}        # class name -> 'regular'|'interface'|'abstract'

    # -- construction from IR objects -------------------------------------
    def add_builtin_obj(self, b):
        tp = _tp()
        k = type(b).__name__
        if k in self.builtins:
            return
        sups = []
        self.builtins[k] = sups
        try:
            proto = type(b)()            # boxed prototype
        except Exception:
            proto = b
        for s in list(proto.supertypes):
            sups.append(to_term(s))
            if isinstance(s, tp.Builtin):
                self.add_builtin_obj(s)

    def add_tcon(self, tc):
        n = cname(tc)
        if n in self.classes:
            return
        params = [(str(p.name), var_of(p.variance),
                   None if p.bound is None else to_term(p.bound))
                  for p in tc.type_parameters]
        self.classes[n] = (params, [to_term(s) for s in tc.supertypes])
        for s in tc.supertypes:
            self.scan(s)
        for p in tc.type_parameters:
            self.scan(p.bound)

    def add_class_decl(self, c):
        params = [(str(p.name), var_of(p.variance),
                   None if p.bound is None else to_term(p.bound))
                  for p in c.type_parameters]
        self.classes[str(c.name)] = (params, [to_term(s.class_type) for s in c.superclasses])
        self.kinds[str(c.name)] = {0: 'regular', 1: 'interface', 2: 'abstract'}.get(c.class_type, '?')
        for s in c.superclasses:
            self.scan(s.class_type)
        for p in c.type_parameters:
            self.scan(p.bound)

    def scan(self, t, depth=0):
        """Register builtins / builtin constructors reachable from t (user
        classes are only ever registered from declarations or a spec)."""
        tp = _tp()
        if t is None or depth > 14:
            return
        if isinstance(t, tp.ParameterizedType):
            if isinstance(t.t_constructor, tp.Builtin):
                self.add_tcon(t.t_constructor)
            for a in t.type_args:
                self.scan(a, depth + 1)
        elif isinstance(t, tp.TypeConstructor):
            if isinstance(t, tp.Builtin):
                self.add_tcon(t)
        elif isinstance(t, tp.Builtin):
            self.add_builtin_obj(t)
        elif isinstance(t, (tp.WildCardType, tp.TypeParameter)):
            self.scan(t.bound, depth + 1)

    @classmethod
    def from_program(cls, program):
        T = cls()
        f = program.bt_factory
        T.top = type(f.get_any_type()).__name__
        for b in f.get_non_nothing_types():
            T.scan(b)
        for c in program.context.get_classes(('global',), glob=True).values():
            T.add_class_decl(c)
        return T


def subst(x, m):
    k = x[0]
    if k == 'v':
        if x[1] in m:
            return m[x[1]]
        if x[3] is not None:
            return ('v', x[1], x[2], subst(x[3], m))
        return x
    if k == 'c':
        return ('c', x[1], tuple(subst(a, m) for a in x[2]))
    if k == 'w':
        return ('w', x[1], None if x[2] is None else subst(x[2], m))
    return x


def supers_of(x, T):
    k = x[0]
    if k == 'b':
        if x[1] not in T.builtins:
            raise Unknown('builtin ' + x[1])
        return T.builtins[x[1]]
    if k == 'c':
        if x[1] not in T.classes:
            raise Unknown('class ' + x[1])
        params, sups = T.classes[x[1]]
        if len(params) != len(x[2]):
            raise Unknown('arity ' + x[1])
        m = {p[0]: a for p, a in zip(params, x[2])}
        return [subst(s, m) for s in sups]
    return []


def refsub(s, t, T, fuel=40):
    if fuel <= 0:
        raise Unknown('fuel')
    if s == ('bot',) or s == t:
        return True
    ks, kt = s[0], t[0]
    if ks in UNJUDGED_KINDS or kt in UNJUDGED_KINDS:
        raise Unknown('kind')
    if ks == 'w':
        if kt == 'w':
            if t[1] == INV and t[2] is None:
                return True
            if s[1] == COV and t[1] == COV and s[2] and t[2]:
                return refsub(s[2], t[2], T, fuel - 1)
            if s[1] == CON and t[1] == CON and s[2] and t[2]:
                return refsub(t[2], s[2], T, fuel - 1)
            return False
        if s[1] == COV and s[2] is not None:
            return refsub(s[2], t, T, fuel - 1)
        return False
    if kt == 'w':
        return False
    if kt == 'b' and T.top is not None and t[1] == T.top:
        return True                      # the implicit top type is above every class, builtin and variable
    if ks == 'v':
        if s[3] is None:
            return False
        return refsub(s[3], t, T, fuel - 1)
    if kt == 'v':
        return False
    if ks == 'c' and kt == 'c' and s[1] == t[1] and len(s[2]) == len(t[2]):
        if s[1] not in T.classes:
            raise Unknown('class ' + s[1])
        params = T.classes[s[1]][0]
        if len(params) != len(s[2]):
            raise Unknown('arity ' + s[1])
        if all(contained(a, b, p[1], T, fuel - 1)
               for a, b, p in zip(s[2], t[2], params)):
            return True
    for u in supers_of(s, T):
        if refsub(u, t, T, fuel - 1):
            return True
    return False


def contained(a, b, v, T, fuel=40):
    """a is contained in b, for a parameter of declared variance v."""
    aw, bw = a[0] == 'w', b[0] == 'w'
    if bw:
        if b[2] is None:
            return True
        if b[1] == COV:
            if aw:
                return a[1] == COV and a[2] is not None and refsub(a[2], b[2], T, fuel)
            return refsub(a, b[2], T, fuel)
        if b[1] == CON:
            if aw:
                return a[1] == CON and a[2] is not None and refsub(b[2], a[2], T, fuel)
            return refsub(b[2], a, T, fuel)
        return False
    if aw:
        if a[2] is None:
            return False
        if v == COV and a[1] == COV:
            return refsub(a[2], b, T, fuel)
        if v == CON and a[1] == CON:
            return refsub(b, a[2], T, fuel)
        return False
    if v == INV:
        return a == b
    if v == COV:
        return refsub(a, b, T, fuel)
    return refsub(b, a, T, fuel)


def refsub3(s, t, T):
    """Three-valued: True / False / None (unjudged)."""
    try:
        return refsub(s, t, T)
    except (Unknown, RecursionError):
        return None


def is_top(x, T):
    return x[0] == 'b' and (x[1] == T.top or x[1] in ('AnyType', 'ObjectType'))


def in_exact_domain(x, T, top_level=True):
    """Concrete: classes, non-top builtins, bounded projections consistent with
    the declared variance; no variables, stars, bare constructors, top type."""
    k = x[0]
    if k == 'b':
        return not is_top(x, T)
    if k == 'c':
        if x[1] not in T.classes:
            return False
        params = T.classes[x[1]][0]
        if len(params) != len(x[2]):
            return False
        for a, p in zip(x[2], params):
            if a[0] == 'w':
                if a[2] is None or a[1] == INV:
                    return False
                if (p[1] == COV and a[1] == CON) or (p[1] == CON and a[1] == COV):
                    return False
                if a[2][0] == 'w' or not in_exact_domain(a[2], T, False):
                    return False
            elif not in_exact_domain(a, T, False):
                return False
        return True
    return False


def embedded_consistent(t, T, depth=0):
    """Do the supertypes embedded in the IR object (and in everything nested in
    it) agree with the class table?  The generator queries types of classes
    that are still under construction; such stale snapshots are outside the
    exactness domain."""
    tp = _tp()
    if t is None or depth > 10:
        return True
    if isinstance(t, tp.ParameterizedType):
        try:
            want = supers_of(to_term(t), T)
        except Unknown:
            return False
        have = [to_term(s) for s in t.supertypes]
        if have != want:
            return False
        return all(embedded_consistent(a, T, depth + 1) for a in t.type_args) and \
            all(embedded_consistent(s, T, depth + 1) for s in t.supertypes)
    if isinstance(t, (tp.WildCardType, tp.TypeParameter)):
        return embedded_consistent(t.bound, T, depth + 1)
    if isinstance(t, tp.Builtin):
        return True
    if isinstance(t, tp.SimpleClassifier):
        try:
            want = supers_of(to_term(t), T)
        except Unknown:
            return False
        have = [to_term(s) for s in t.supertypes]
        if have != want:
            return False
        return all(embedded_consistent(s, T, depth + 1) for s in t.supertypes)
    return True
