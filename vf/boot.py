"""Process bootstrap: import the repository under test the way the CLI does.

Order matters (DESIGN 3.1):
 1. seed the stdlib `random` (src/utils samples its word pool at import),
 2. import src.ir.node from VERIF_REPO and install the deterministic
    identity-hash shim (IR nodes hash by id(); sets of them feed random choices),
 3. set sys.argv and import hephaestus (runs src/args.py as a user run does).
"""
import itertools
import os
import random as _stdrandom
import sys

REPO = os.environ.get('VERIF_REPO', '/repo')
_state = {}

SWITCHES = ['--disable-use-site-variance', '--disable-contravariance-use-site',
            '--disable-bounded-type-parameters', '--disable-parameterized-functions']
LANGS = ['java', 'kotlin', 'groovy', 'scala']


def repo_on_path():
    if REPO not in sys.path:
        sys.path.insert(0, REPO)
    # the repo is `pip install -e`'d from /repo; make sure VERIF_REPO wins
    for m in list(sys.modules):
        if m == 'src' or m.startswith('src.'):
            f = getattr(sys.modules[m], '__file__', '') or ''
            if not f.startswith(REPO):
                del sys.modules[m]


def install_shim():
    import src.ir.node as n
    box = [itertools.count(1)]

    def _new(cls, *a, **k):
        o = object.__new__(cls)
        o.__dict__['_vh'] = next(box[0])
        return o

    def _hash(self):
        try:
            return self.__dict__['_vh']
        except KeyError:                       # unpickled without stamp
            v = self.__dict__['_vh'] = next(box[0])
            return v
    n.Node.__new__ = staticmethod(_new)
    n.Node.__hash__ = _hash
    _state['shim'] = True
    _state['counter'] = box


def light(pool_seed=0, shim=True):
    """Import the IR without the CLI (labs that need no hephaestus.py)."""
    _stdrandom.seed(pool_seed)
    repo_on_path()
    if shim:
        install_shim()
    import src.ir.ast  # noqa: F401  (before src.ir.context: circular import)
    import src.ir.context  # noqa: F401


def boot(language='kotlin', switches=(), max_depth=None, transformations=2,
         bugs=None, name='vf', extra_argv=(), pool_seed=0, shim=True):
    """Full bootstrap; returns the imported `hephaestus` module."""
    if 'heph' in _state:
        return _state['heph']
    _stdrandom.seed(pool_seed)
    repo_on_path()
    if shim:
        install_shim()
    bugs = bugs or os.path.join(os.environ.get('VERIF_SCRATCH', '/tmp'), 'vf-bugs-%d' % os.getpid())
    argv = ['hephaestus.py', '--language', language, '--bugs', bugs, '--name', name,
            '--transformations', str(transformations), '--iterations', '1', '--batch', '1']
    if max_depth is not None:
        argv += ['--max-depth', str(max_depth)]
    argv += list(switches) + list(extra_argv)
    sys.argv = argv
    import src.ir.ast  # noqa: F401
    import hephaestus
    assert hephaestus.__file__.startswith(REPO), hephaestus.__file__
    _state['heph'] = hephaestus
    _state['argv'] = argv
    return hephaestus


def reseed(seed):
    """What the driver does before each program, plus a deterministic seed."""
    from src import utils
    utils.random.r.seed(seed)
    utils.random.reset_word_pool()
    if 'counter' in _state:
        # stamps only have to be unique among live nodes of one case; restarting
        # makes a case independent of what ran before it in the same process
        _state['counter'][0] = itertools.count(1000000)
