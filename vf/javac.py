"""Process-boundary helpers around the real javac (C02, C04, C03)."""
import os
import re
import shutil
import subprocess

_DRIVER = """
import javax.tools.*;
import java.io.*;
public class AloneDriver {
  public static void main(String[] a) throws Exception {
    JavaCompiler c = ToolProvider.getSystemJavaCompiler();
    BufferedReader r = new BufferedReader(new FileReader(a[1]));
    String f;
    while ((f = r.readLine()) != null) {
      if (f.isEmpty()) continue;
      ByteArrayOutputStream bo = new ByteArrayOutputStream();
      int rc = c.run(null, bo, bo, "-Xmaxerrs", "100000", "-nowarn", "-d", a[0], f);
      System.out.println("@@@BEGIN " + rc + " " + f);
      System.out.print(bo.toString("UTF-8"));
      System.out.println();
      System.out.println("@@@END");
    }
  }
}
"""

IND = re.compile(r'^(.+\.java):(\d+): error: (.*)$')


def have_javac():
    return shutil.which('javac') is not None and shutil.which('java') is not None


def independent_parse(output):
    """file -> [(line, message)] from header lines only (own regex, not the tool's)."""
    per = {}
    for ln in output.split('\n'):
        m = IND.match(ln)
        if m:
            per.setdefault(m.group(1), []).append((int(m.group(2)), m.group(3)))
    return per


def compile_alone(paths, scratch, timeout=1800):
    """Each file compiled ALONE (own javac run inside one JVM, javax.tools =
    the command line's entry point) with -Xmaxerrs 100000 -nowarn.
    Returns {path: {'rc': int, 'errors': [(line, msg)], 'output': str}} or None."""
    os.makedirs(scratch, exist_ok=True)
    drv = os.path.join(scratch, 'AloneDriver.java')
    with open(drv, 'w') as f:
        f.write(_DRIVER)
    lst = os.path.join(scratch, 'files.txt')
    with open(lst, 'w') as f:
        f.write('\n'.join(paths) + '\n')
    outd = os.path.join(scratch, 'classes')
    os.makedirs(outd, exist_ok=True)
    try:
        # cwd = scratch: a crashing javac dumps a javac.<timestamp>.args file into its working directory
        p = subprocess.run(['java', '-Xss16m', drv, outd, lst], capture_output=True, text=True, timeout=timeout,
                           cwd=scratch)
    except subprocess.TimeoutExpired:
        return None
    blocks = re.findall(r'@@@BEGIN (-?\d+) (\S+)\n(.*?)\n@@@END\n', p.stdout, re.S)
    res = {}
    for rc, path, text in blocks:
        per = independent_parse(text)
        res[path] = {'rc': int(rc), 'errors': per.get(path, []), 'output': text,
                     'foreign': sorted(set(per) - {path})}
    shutil.rmtree(outd, ignore_errors=True)
    if len(res) != len(set(paths)):
        return None
    return res


def normalize_message(msg):
    """Error message with identifiers/types erased: the mechanism of a javac
    rejection, never its names."""
    m = re.sub(r'[A-Z][A-Za-z0-9_]*(<[^;]*>)?', 'T', msg)
    m = re.sub(r'\b[a-z_][A-Za-z0-9_]*\(', 'f(', m)
    m = re.sub(r'CAP#\d+', 'CAP', m)
    m = re.sub(r'\d+', 'N', m)
    return m[:120]
