"""Reference model of the test driver (property C15), written from the property
statement only -- it never looks at hephaestus.py.

Vocabulary
  program     {'pid': int, 'tool_failed': bool,
               'files': [(path, expected_ok: bool)],        # what was handed to the compiler
               'tool_msg': str|None,                        # the tool's own failure text
               'injected': str|None}                        # description of the injected type error
  behaviour   {'errors': {path: [token, ...]},              # files the compiler reported an error for
               'crash': token|None}                         # the compiler crashed on the batch

Statement, clause by clause
  fault(pid)  <=>  tool_failed(pid)
               or  crash
               or  exists (f, expected_ok=True)  of pid with f in errors          ('rejected')
               or  exists (f, expected_ok=False) of pid with f not in errors      ('accepted')
  message     rejected -> carries the compiler's message(s) for that file
              accepted -> starts with 'SHOULD NOT BE COMPILED'
              crash    -> carries the crash text
              tool     -> carries the tool's failure text
  saved       compiler-related fault (crash / rejected / accepted of a program
              the tool did produce) -> test case under <session>/<pid>/
  leftovers   at the end of the session nothing of a non-faulty program is
              left: no <session>/<pid>/, no <session>/tmp, no batch temp dir
  counters    after any history: passed += |batch| - |faults|, failed += |faults|;
              faults file keys == union of reported pids; stats file == totals
"""

PREFIX = 'SHOULD NOT BE COMPILED'


def judge_batch(programs, behaviour):
    """-> {pid: {'reasons': [..], 'save': bool}} for the faulty pids only."""
    errors = behaviour.get('errors') or {}
    crash = behaviour.get('crash') is not None
    out = {}
    for p in programs:
        reasons = []
        if p['tool_failed']:
            reasons.append('tool')
        if crash:
            reasons.append('crash')
        if not p['tool_failed']:
            # the oracle of a program the tool failed on is void: it is a fault anyway
            if any(ok and f in errors for f, ok in p['files']):
                reasons.append('rejected')
            if any((not ok) and f not in errors for f, ok in p['files']):
                reasons.append('accepted')
        if reasons:
            out[p['pid']] = {
                'reasons': reasons,
                'save': (not p['tool_failed']) and any(r != 'tool' for r in reasons),
            }
    return out


def message_defects(text, program, verdict, behaviour):
    """What a reported fault's message lacks (empty list = fine).

    Only what the statement demands: with a crash the crash text; otherwise the
    compiler's messages for a rejected well-typed program and the prefix for an
    accepted ill-typed one.  A tool failure must carry the tool's text unless
    the crash text took its place (both are 'corresponding')."""
    text = '' if text is None else str(text)
    reasons = verdict['reasons']
    lacks = []
    crash = behaviour.get('crash')
    if 'tool' in reasons:
        ok = bool(program.get('tool_msg')) and program['tool_msg'] in text
        if not ok and crash is not None and crash in text:
            ok = True
        if not ok:
            lacks.append('tool-message')
        return lacks
    if 'crash' in reasons:
        if crash not in text:
            lacks.append('crash-text')
        return lacks
    errors = behaviour.get('errors') or {}
    if 'rejected' in reasons:
        for f, ok in program['files']:
            if ok and f in errors:
                if not all(tok in text for tok in errors[f]):
                    lacks.append('compiler-message')
    if 'accepted' in reasons:
        if not text.startswith(PREFIX):
            lacks.append('prefix')
        if 'rejected' not in reasons and program.get('injected') and program['injected'] not in text:
            lacks.append('injected-error-text')
    return lacks


class Counters:
    """Totals after a history of batches."""

    def __init__(self):
        self.passed = 0
        self.failed = 0
        self.processed = 0
        self.reported = set()

    def add(self, batch_size, faults):
        faults = set(faults)
        self.processed += batch_size
        self.failed += len(faults)
        self.passed += batch_size - len(faults)
        self.reported |= faults

    def as_dict(self):
        return {'passed': self.passed, 'failed': self.failed}


def allowed_entries(saved_pids, keep_all=False):
    """Top-level names that may exist in the session directory at the end."""
    names = {'faults.json', 'stats.json'} | {str(p) for p in saved_pids}
    if keep_all:
        # -k asks for every intermediate program to be kept, there
        names |= {'generator', 'transformations'}
    return names
