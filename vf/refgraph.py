"""Reference model for C19 (DESIGN 4.5): what the graph queries of
src/graph_utils.py *should* return, written from the definitions only.

Nothing in here imports or mirrors the code under test.  A graph is reduced
to `n` vertices 0..n-1 and `succ[i]` = successors of i (`extract` does that
for the two input shapes the repository uses: adjacency dict of vertex
containers, and dict of lists of edge objects with a `.target`).

  reachability          Warshall closure on bitmask rows (>= 0 edges)
  dfs                   own depth-first walk (>= 1 edge), minus the source
  weak connectivity     Warshall closure of the symmetrised relation
  simple paths          backtracking enumeration (the trivial path [v] included)
  maximal paths         simple paths that are not a proper prefix of another
  sources(v)            in-degree-0 vertices (a self-loop is an in-edge) that
                        reach v by >= 0 edges; hence [v] when v itself has
                        in-degree 0 and nothing when v's ancestors all lie on
                        cycles
  none_reachable        exists u: bi(v,u) and bi(u,none)   (bi is NOT transitive)
  none_connected        exists u: conn(v,u) and conn(u,none)  (= conn(v,none))

networkx is used as a second opinion on reachability and weak connectivity
(`nx_opinion`); a disagreement between the two is an oracle fault, never a
verdict about the repository.
"""

BOOL_FUNCS = ('reachable', 'bi_reachable', 'connected', 'none_reachable', 'none_connected')
SET_FUNCS = ('find_all_reachable', 'find_all_bi_reachable', 'find_all_connected',
             'find_sources', 'dfs')
PATH_FUNCS = ('find_all_paths', 'find_longest_paths')
ALL_FUNCS = BOOL_FUNCS + SET_FUNCS + PATH_FUNCS
# number of vertex arguments after the graph
ARITY = {'reachable': 2, 'bi_reachable': 2, 'connected': 2, 'none_reachable': 2,
         'none_connected': 2, 'find_all_reachable': 1, 'find_all_bi_reachable': 1,
         'find_all_connected': 1, 'find_sources': 1, 'dfs': 1, 'find_all_paths': 1,
         'find_longest_paths': 1}


class TooManyPaths(Exception):
    pass


def bits(mask):
    out = []
    i = 0
    while mask:
        if mask & 1:
            out.append(i)
        mask >>= 1
        i += 1
    return out


def _warshall(rows, n):
    """Reflexive-transitive closure of the relation given as bitmask rows."""
    r = [rows[i] | (1 << i) for i in range(n)]
    for k in range(n):
        rk = r[k]
        bk = 1 << k
        for i in range(n):
            if r[i] & bk:
                r[i] |= rk
    return r


class Ref:
    def __init__(self, n, succ):
        self.n = n
        self.succ = [tuple(dict.fromkeys(s)) for s in succ]
        self.out = [0] * n
        self.inn = [0] * n
        for i, s in enumerate(self.succ):
            for j in s:
                self.out[i] |= 1 << j
                self.inn[j] |= 1 << i
        self._R = self._W = None
        self._paths = {}

    # -- relations ---------------------------------------------------------
    @property
    def R(self):
        if self._R is None:
            self._R = _warshall(self.out, self.n)
        return self._R

    @property
    def W(self):
        if self._W is None:
            self._W = _warshall([self.out[i] | self.inn[i] for i in range(self.n)], self.n)
        return self._W

    def reach(self, s, d):
        return bool(self.R[s] >> d & 1)

    def bi(self, s, d):
        return bool((self.R[s] >> d | self.R[d] >> s) & 1)

    def conn(self, s, d):
        return bool(self.W[s] >> d & 1)

    def walk(self, s):
        """Own depth-first walk: vertices reachable from s by >= 1 edge."""
        seen = 0
        stack = [iter(self.succ[s])]
        while stack:
            for j in stack[-1]:
                if not seen >> j & 1:
                    seen |= 1 << j
                    stack.append(iter(self.succ[j]))
                    break
            else:
                stack.pop()
        return seen

    def self_consistent(self):
        """closure (>=0 edges) must equal own walk (>=1 edge) plus the start."""
        return all(self.R[s] == self.walk(s) | (1 << s) for s in range(self.n))

    # -- paths -------------------------------------------------------------
    def simple_paths(self, v, cap=None):
        """All simple paths from v (the trivial one included), in DFS order;
        raises TooManyPaths when there are more than `cap`."""
        hit = self._paths.get(v)
        if hit is not None:
            paths, tried = hit
            if paths is not None:
                if cap is not None and len(paths) > cap:
                    raise TooManyPaths()
                return paths
            if cap is not None and cap <= tried:
                raise TooManyPaths()
        res = []
        path = [v]
        on = [False] * self.n
        on[v] = True

        def go():
            res.append(tuple(path))
            if cap is not None and len(res) > cap:
                raise TooManyPaths()
            for j in self.succ[path[-1]]:
                if not on[j]:
                    on[j] = True
                    path.append(j)
                    go()
                    path.pop()
                    on[j] = False
        try:
            go()
        except TooManyPaths:
            self._paths[v] = (None, cap)
            raise
        self._paths[v] = (res, cap)
        return res

    def maximal_paths(self, v, cap=None):
        paths = self.simple_paths(v, cap)
        proper_prefixes = set()
        for p in paths:
            for k in range(1, len(p)):
                proper_prefixes.add(p[:k])
        return [p for p in paths if p not in proper_prefixes]

    def sources(self, v):
        return [u for u in range(self.n) if self.inn[u] == 0 and self.R[u] >> v & 1]

    # -- the queries -------------------------------------------------------
    def expected(self, func, *a, cap=None):
        """Canonical expected answer: bool | frozenset(idx) | frozenset(tuple(idx))."""
        n = self.n
        if func == 'reachable':
            return self.reach(*a)
        if func == 'bi_reachable':
            return self.bi(*a)
        if func == 'connected':
            return self.conn(*a)
        if func == 'find_all_reachable':
            return frozenset(bits(self.R[a[0]]))
        if func == 'find_all_bi_reachable':
            v = a[0]
            return frozenset(u for u in range(n) if self.bi(v, u))
        if func == 'find_all_connected':
            return frozenset(bits(self.W[a[0]]))
        if func == 'none_reachable':
            v, none = a
            return any(self.bi(v, u) and self.bi(u, none) for u in range(n))
        if func == 'none_connected':
            v, none = a
            return any(self.conn(v, u) and self.conn(u, none) for u in range(n))
        if func == 'find_sources':
            return frozenset(self.sources(a[0]))
        if func == 'dfs':
            s = a[0]
            return frozenset(bits(self.walk(s) & ~(1 << s)))
        if func == 'find_all_paths':
            return frozenset(self.simple_paths(a[0], cap))
        if func == 'find_longest_paths':
            return frozenset(self.maximal_paths(a[0], cap))
        raise KeyError(func)


def extract(graph, edges=False, extra=()):
    """Adjacency object -> (labels, index, succ, all_keys).

    Vertices = keys, then edge targets that are no keys, then `extra` (call
    arguments that occur nowhere).  `all_keys` tells whether every vertex is a
    key (the domain of the vertex-container functions)."""
    index = {}
    labels = []

    def ix(v):
        i = index.get(v)
        if i is None:
            i = index[v] = len(labels)
            labels.append(v)
        return i
    for k in graph:
        ix(k)
    nkeys = len(labels)
    succ = [[] for _ in range(nkeys)]
    for k, adj in graph.items():
        row = succ[index[k]]
        for e in adj:
            row.append(ix(e.target if edges else e))
    for v in extra:
        ix(v)
    all_keys = len(labels) == nkeys
    succ.extend([] for _ in range(len(labels) - nkeys))
    return labels, index, succ, all_keys


def nx_opinion(n, succ):
    """(reach rows, weak rows) according to networkx."""
    import networkx as nx
    g = nx.DiGraph()
    g.add_nodes_from(range(n))
    g.add_edges_from((i, j) for i in range(n) for j in succ[i])
    reach = []
    for s in range(n):
        m = 1 << s
        for d in nx.descendants(g, s):
            m |= 1 << d
        reach.append(m)
    weak = [0] * n
    for comp in nx.weakly_connected_components(g):
        m = 0
        for v in comp:
            m |= 1 << v
        for v in comp:
            weak[v] = m
    return reach, weak


def agrees_with_networkx(ref):
    reach, weak = nx_opinion(ref.n, ref.succ)
    return reach == ref.R and weak == ref.W


# ---------------------------------------------------------------------------
# isomorphism-invariant shapes (identifiers erased)

_PERMS = {}


def _perm_tables(n):
    if n not in _PERMS:
        import itertools
        tabs = []
        for p in itertools.permutations(range(n)):
            tabs.append([p[b // n] * n + p[b % n] for b in range(n * n)])
        _PERMS[n] = tabs
    return _PERMS[n]


def canon_mask(n, mask):
    """Smallest adjacency bitmask over all relabelings (exact, n <= 5)."""
    if n <= 1 or mask == 0:
        return mask
    sb = bits(mask)
    best = None
    for tab in _perm_tables(n):
        m = 0
        for b in sb:
            m |= 1 << tab[b]
        if best is None or m < best:
            best = m
    return best


def wl_shape(n, succ):
    """Relabeling-invariant fingerprint for larger graphs (two rounds of
    colour refinement over (out, in, loop) degrees); not a complete invariant."""
    outs = [set(s) for s in succ]
    ins = [set() for _ in range(n)]
    for i, s in enumerate(outs):
        for j in s:
            ins[j].add(i)
    col = [(len(outs[i]), len(ins[i]), i in outs[i]) for i in range(n)]
    for _ in range(2):
        col = [hash((col[i], tuple(sorted(hash(col[j]) for j in outs[i])),
                     tuple(sorted(hash(col[j]) for j in ins[i])))) for i in range(n)]
    return 'wl:%d:%d:%x' % (n, sum(len(s) for s in outs), hash(tuple(sorted(col))) & 0xffffffffffff)


# ---------------------------------------------------------------------------
# hand-written fixtures (DESIGN 7.3): `python -m vf.refgraph`


def selftest():
    """Returns a list of failed fixture names (empty = fine)."""
    bad = []

    def chk(name, got, want):
        if got != want:
            bad.append('%s: got %r, want %r' % (name, got, want))
    fs = frozenset
    # 0 -> 1 -> 2, 4 -> 2, 3 isolated with a self-loop   (docstring of `connected`)
    r = Ref(5, [[1], [2], [], [3], [2]])
    chk('reach 0->2', r.expected('reachable', 0, 2), True)
    chk('reach 2->0', r.expected('reachable', 2, 0), False)
    chk('reach self', r.expected('reachable', 2, 2), True)
    chk('bi 2,0', r.expected('bi_reachable', 2, 0), True)
    chk('bi 0,4', r.expected('bi_reachable', 0, 4), False)
    chk('conn 0,4', r.expected('connected', 0, 4), True)
    chk('conn 0,3', r.expected('connected', 0, 3), False)
    chk('all_reach 0', r.expected('find_all_reachable', 0), fs([0, 1, 2]))
    chk('all_bi 2', r.expected('find_all_bi_reachable', 2), fs([0, 1, 2, 4]))
    chk('all_conn 4', r.expected('find_all_connected', 4), fs([0, 1, 2, 4]))
    chk('all_conn 3', r.expected('find_all_connected', 3), fs([3]))
    chk('sources 2', r.expected('find_sources', 2), fs([0, 4]))
    chk('sources 0', r.expected('find_sources', 0), fs([0]))
    chk('sources 3 (self-loop only)', r.expected('find_sources', 3), fs())
    chk('dfs 0', r.expected('dfs', 0), fs([1, 2]))
    chk('dfs 3 (self-loop)', r.expected('dfs', 3), fs())
    chk('paths 0', r.expected('find_all_paths', 0), fs([(0,), (0, 1), (0, 1, 2)]))
    chk('longest 0', r.expected('find_longest_paths', 0), fs([(0, 1, 2)]))
    chk('longest 2', r.expected('find_longest_paths', 2), fs([(2,)]))
    # none_*: 0 -> 1 <- 2 : 0 and 2 are not bi-reachable, but 1 bridges them
    r = Ref(4, [[1], [], [1], []])
    chk('none_reachable bridge', r.expected('none_reachable', 0, 2), True)
    chk('bi 0,2', r.expected('bi_reachable', 0, 2), False)
    chk('none_reachable isolated', r.expected('none_reachable', 0, 3), False)
    chk('none_connected', r.expected('none_connected', 0, 2), True)
    chk('none_connected isolated', r.expected('none_connected', 3, 2), False)
    # cycle 0 -> 1 -> 2 -> 0 with a tail 2 -> 3: no in-degree-0 vertex at all
    r = Ref(4, [[1], [2], [0, 3], []])
    chk('cycle sources', r.expected('find_sources', 3), fs())
    chk('cycle dfs excludes source', r.expected('dfs', 0), fs([1, 2, 3]))
    chk('cycle paths', r.expected('find_all_paths', 0),
        fs([(0,), (0, 1), (0, 1, 2), (0, 1, 2, 3)]))
    chk('cycle longest', r.expected('find_longest_paths', 0), fs([(0, 1, 2, 3)]))
    chk('cycle longest from 2', r.expected('find_longest_paths', 2), fs([(2, 0, 1), (2, 3)]))
    chk('walk vs closure', r.self_consistent(), True)
    chk('networkx agrees', agrees_with_networkx(r), True)
    # zig-zag 0 -> 1 <- 2 -> 3
    r = Ref(4, [[1], [], [1, 3], []])
    chk('zigzag conn', r.expected('connected', 0, 3), True)
    chk('zigzag bi', r.expected('bi_reachable', 0, 3), False)
    # shapes: relabeling-invariant
    chk('canon', canon_mask(3, 0b000000010), canon_mask(3, 0b001000000))
    chk('canon distinguishes loop', canon_mask(3, 0b000000001) != canon_mask(3, 0b000000010), True)
    chk('wl invariant', wl_shape(6, [[1], [2], [], [], [], []]),
        wl_shape(6, [[], [], [], [4], [5], []]))
    return bad


if __name__ == '__main__':
    import sys
    b = selftest()
    print('\n'.join(b) if b else 'refgraph selftest ok')
    sys.exit(1 if b else 0)
