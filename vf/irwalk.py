"""Total walk over a program's nodes and recorded types, written against node
*attributes* only (no visitor of the code under test is used)."""


def _m():
    from src.ir import ast, types as tp
    return ast, tp


def top_level(program):
    ctx = program.context._context
    g = ctx.get(('global',), {})
    return [d for d in g.get('decls', {}).values() if d is not None]


def node_children(node):
    """Structural children, read from attributes (not node.children())."""
    ast, tp = _m()
    c = []
    if isinstance(node, ast.ClassDeclaration):
        c += list(node.fields) + list(node.superclasses) + list(node.functions)
    elif isinstance(node, ast.FunctionDeclaration):
        c += list(node.params)
        if node.body is not None:
            c.append(node.body)
    elif isinstance(node, ast.Lambda):
        c += list(node.params)
        if node.body is not None:
            c.append(node.body)
    elif isinstance(node, ast.ParameterDeclaration):
        if node.default is not None:
            c.append(node.default)
    elif isinstance(node, ast.VariableDeclaration):
        c.append(node.expr)
    elif isinstance(node, ast.SuperClassInstantiation):
        c += list(node.args or [])
    elif isinstance(node, ast.CallArgument):
        c.append(node.expr)
    elif isinstance(node, ast.Block):
        c += list(node.body)
    elif isinstance(node, ast.ArrayExpr):
        c += list(node.exprs)
    elif isinstance(node, ast.Conditional):
        c += [node.cond, node.true_branch, node.false_branch]
    elif isinstance(node, ast.Is):
        c.append(node.lexpr)
    elif isinstance(node, ast.BinaryOp):
        c += [node.lexpr, node.rexpr]
    elif isinstance(node, ast.New):
        c += list(node.args)
    elif isinstance(node, ast.FieldAccess):
        c.append(node.expr)
    elif isinstance(node, ast.FunctionCall):
        if node.receiver is not None:
            c.append(node.receiver)
        c += list(node.args)
    elif isinstance(node, ast.FunctionReference):
        if node.receiver is not None:
            c.append(node.receiver)
    elif isinstance(node, ast.Assignment):
        if node.receiver is not None:
            c.append(node.receiver)
        c.append(node.expr)
    return [x for x in c if x is not None]


def iter_nodes(program):
    """Yield (node, ancestors tuple) for every node, pre-order."""
    stack = [(d, ()) for d in reversed(top_level(program))]
    while stack:
        node, anc = stack.pop()
        yield node, anc
        a2 = anc + (node,)
        for ch in reversed(node_children(node)):
            stack.append((ch, a2))


def type_slots(node):
    """[(slot, type-or-None)] of every recorded type on a node; type parameter
    declarations are returned as ('tparam[i]', TypeParameter)."""
    ast, tp = _m()
    s = []
    if isinstance(node, ast.VariableDeclaration):
        s += [('var_type', node.var_type), ('inferred_type', node.inferred_type)]
    elif isinstance(node, ast.FieldDeclaration):
        s.append(('field_type', node.field_type))
    elif isinstance(node, ast.ParameterDeclaration):
        s.append(('param_type', node.param_type))
    elif isinstance(node, ast.FunctionDeclaration):
        s += [('ret_type', node.ret_type), ('inferred_type', node.inferred_type)]
        s += [('tparam[%d]' % i, t) for i, t in enumerate(node.type_parameters)]
    elif isinstance(node, ast.Lambda):
        s += [('ret_type', node.ret_type), ('signature', node.signature)]
    elif isinstance(node, ast.ClassDeclaration):
        s += [('tparam[%d]' % i, t) for i, t in enumerate(node.type_parameters)]
    elif isinstance(node, ast.SuperClassInstantiation):
        s.append(('class_type', node.class_type))
    elif isinstance(node, ast.New):
        s.append(('class_type', node.class_type))
    elif isinstance(node, ast.FunctionCall):
        s += [('type_args[%d]' % i, t) for i, t in enumerate(node.type_args or [])]
    elif isinstance(node, ast.FunctionReference):
        s.append(('signature', node.signature))
    elif isinstance(node, ast.Is):
        s.append(('is_type', node.rexpr))
    elif isinstance(node, ast.ArrayExpr):
        s.append(('array_type', node.array_type))
    elif isinstance(node, ast.Conditional):
        s.append(('inferred_type', node.inferred_type))
    elif isinstance(node, ast.BottomConstant):
        s.append(('t', node.t))
    elif isinstance(node, ast.IntegerConstant):
        s.append(('integer_type', node.integer_type))
    elif isinstance(node, ast.RealConstant):
        s.append(('real_type', node.real_type))
    return s


def walk_type(t, fn, pos='top', depth=0, seen=None):
    """Call fn(type, position) for t and everything nested in it: type
    arguments ('targ'), projection bounds ('wbound'), variable bounds
    ('vbound').  Derived `supertypes` are not followed."""
    ast, tp = _m()
    if t is None or depth > 20 or not isinstance(t, tp.Type):
        return
    fn(t, pos)
    if isinstance(t, tp.ParameterizedType):
        for a in t.type_args:
            walk_type(a, fn, 'targ', depth + 1)
    elif isinstance(t, tp.WildCardType):
        walk_type(t.bound, fn, 'wbound', depth + 1)
    elif isinstance(t, tp.TypeParameter):
        walk_type(t.bound, fn, 'vbound', depth + 1)


def expr_nesting(program):
    """Maximum number of nested expression/block nodes below a declaration."""
    best = 0
    for node, anc in iter_nodes(program):
        if len(anc) > best:
            best = len(anc)
    return best + 1
