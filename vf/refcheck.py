"""Reference type checker + scope resolver over the IR (DESIGN 4.2, 4.3).

Independent of the code under test: it reads node ATTRIBUTES only and never
calls is_subtype / type_utils / Context helpers.  Three-valued: every judged
position yields ok / violation / unjudged(reason); only DEFINITE errors are
violations (assignability over-approximates every target language).

Findings are dicts {rule, msg, node, extra}; counts in self.stats.
"""
from vf import terms, irwalk
from vf.terms import INV, COV, CON

NUMERIC = {'IntegerType', 'ShortType', 'LongType', 'ByteType', 'FloatType', 'DoubleType', 'NumberType',
           'CharType', 'BigDecimalType', 'BigIntegerType'}

WIDEN = ['ByteType', 'ShortType', 'IntegerType', 'LongType', 'FloatType', 'DoubleType']

KEYWORDS = {
    'java': set('abstract assert boolean break byte case catch char class const continue default do double else '
                'enum extends final finally float for goto if implements import instanceof int interface long '
                'native new package private protected public return short static strictfp super switch '
                'synchronized this throw throws transient try void volatile while true false null var '
                '_'.split()),
    'kotlin': set('as break class continue do else false for fun if in interface is null object package return '
                  'super this throw true try typealias typeof val var when while'.split()),
    'groovy': set('abstract as assert boolean break byte case catch char class const continue def default do '
                  'double else enum extends final finally float for goto if implements import in instanceof int '
                  'interface long native new null package private protected public return short static strictfp '
                  'super switch synchronized this threadsafe throw throws transient try void volatile while '
                  'true false'.split()),
    'scala': set('abstract case catch class def do else enum extends false final finally for given if '
                 'implicit import lazy match new null object override package private protected return sealed '
                 'super then throw trait true try type val var while with yield'.split()),
}


class Unk(Exception):
    def __init__(self, why):
        self.why = why


def V(name):
    return ('v', name, INV, None)


def strip_v(x):
    """Type variables compare by name: drop variance/bound decorations."""
    k = x[0]
    if k == 'v':
        return ('v', x[1], INV, None)
    if k == 'c':
        return ('c', x[1], tuple(strip_v(a) for a in x[2]))
    if k == 'w':
        return ('w', x[1], None if x[2] is None else strip_v(x[2]))
    return x


class Checker:
    def __init__(self, program, lang, resources=None, infer=False):
        from src.ir import ast, types as tp
        self.ast, self.tp = ast, tp
        self.program = program
        self.lang = lang
        # inference mode (C03): an omitted variable / return type is what the initializer / body
        # synthesises, omitted type arguments are solved from the expected type and the arguments
        self.infer = infer
        self.inf_var = {}        # id(VariableDeclaration) -> term | None
        self.inf_ret = {}        # id(FunctionDeclaration) -> term | None
        self.solved = {}         # id(New | FunctionCall) -> {tvar: term} | Unk
        self.pending = {}        # id(node) -> (node, env, decl, receiver-substitution)
        self._want = {}
        self.genv = None
        self.gen_expect = None   # id(expr) -> [requested type term]  (set by the C01 generate_expr monitor)
        self.f = program.bt_factory
        self.T = terms.Table.from_program(program)
        self.findings = []
        self.stats = {}
        self.unjudged = {}
        self.classes = {}
        ctx = program.context._context
        self.globals = dict((k, v) for k, v in ctx.get(('global',), {}).get('decls', {}).items() if v is not None)
        for name, d in self.globals.items():
            if isinstance(d, ast.ClassDeclaration):
                self.classes[str(name)] = d
        self.bool_t = terms.to_term(self.f.get_boolean_type())
        self.top = ('b', self.T.top)
        self.reserved = set(KEYWORDS.get(lang, ()))
        if resources:
            self.reserved |= resources
        self.tv_bounds = {}
        self.block_env = {}
        self._keep = []

    # ------------------------------------------------------------------ util
    def ok(self, rule):
        self.stats[rule] = self.stats.get(rule, 0) + 1

    def skip(self, rule, why):
        k = '%s:%s' % (rule, why)
        self.unjudged[k] = self.unjudged.get(k, 0) + 1

    def bad(self, rule, msg, node=None, **extra):
        self.stats[rule] = self.stats.get(rule, 0) + 1
        self.findings.append({'rule': rule, 'msg': msg,
                              'node': type(node).__name__ if node is not None else None, 'extra': extra})

    def t(self, x):
        return strip_v(terms.to_term(x))

    # ----------------------------------------------------------- type relation
    def with_bounds(self, x, depth=0):
        """Re-attach the bounds of the type variables in scope (for v <: bound),
        transitively (D : R : Float)."""
        k = x[0]
        if k == 'v':
            b = self.tv_bounds.get(x[1])
            if b is not None and depth < 8:
                b = self.with_bounds(b, depth + 1)
            return ('v', x[1], INV, b)
        if k == 'c':
            return ('c', x[1], tuple(self.with_bounds(a, depth + 1) for a in x[2]))
        if k == 'w':
            return ('w', x[1], None if x[2] is None else self.with_bounds(x[2], depth + 1))
        return x

    def assignable(self, s, t):
        """True / False (definitely not) / None (unknown)."""
        if s is None or t is None:
            return None
        if s == t or s == ('bot',):
            return True
        if terms.is_top(t, self.T):
            return True
        if t[0] in terms.UNJUDGED_KINDS or s[0] in terms.UNJUDGED_KINDS:
            return None
        if s[0] == 'b' and t[0] == 'b' and s[1] in NUMERIC and t[1] in NUMERIC:
            # numeric conversions per language: Kotlin has none (only subtyping, below); Scala widens
            # along Byte < Short < Int < Long < Float < Double (Char joins at Int); Java and Groovy
            # convert in ways that depend on primitive/boxed spelling and constants -> never a definite error
            if self.lang == 'scala':
                if s[1] in WIDEN and t[1] in WIDEN and (
                        WIDEN.index(s[1]) < WIDEN.index(t[1]) or
                        (s[1] == 'CharType' and t[1] in WIDEN[2:])):
                    return True
                if s[1] == 'CharType' and t[1] in WIDEN[2:]:
                    return True
            elif self.lang != 'kotlin':
                return True
        if t[0] == 'v':
            return True if (s[0] == 'v' and s[1] == t[1]) else (None if s[0] == 'v' else False)
        if s[0] == 'c' and s[1].startswith('Function') and t[0] == 'c' and not t[1].startswith('Function'):
            return None                       # SAM conversion
        if terms.has_kind(s, ('w',)) or terms.has_kind(t, ('w',)):
            r = terms.refsub3(self.with_bounds(s), self.with_bounds(t), self.T)
            return True if r else None        # projections: positives only (no capture conversion here)
        r = terms.refsub3(self.with_bounds(s), self.with_bounds(t), self.T)
        if r is False and (terms.has_kind(s, ('v',)) or terms.has_kind(t, ('v',))):
            # variables nested in arguments: equality up to names was tried by refsub; bounds may differ
            return None if strip_v(s) != s or strip_v(t) != t else False
        return r

    # ------------------------------------------------------------- class model
    def class_params(self, name):
        c = self.classes.get(name)
        if c is None:
            if name in self.T.classes:
                return [p[0] for p in self.T.classes[name][0]]
            raise Unk('class-unknown')
        return [str(p.name) for p in c.type_parameters]

    def member(self, recv, name, want):
        """Find field/function `name` along the class chain of receiver type
        term recv.  Returns (decl, substitution {tvar: term}, approximate?)."""
        approx = False
        seen = 0
        cur = recv
        while seen < 12:
            seen += 1
            if cur[0] == 'v':
                b = self.tv_bounds.get(cur[1])
                if b is None:
                    raise Unk('receiver-unbounded-variable')
                cur = b
                continue
            if cur[0] == 'w':
                if cur[2] is None or cur[1] == CON:
                    raise Unk('receiver-projection')
                cur = cur[2]
                continue
            if cur[0] != 'c':
                raise Unk('receiver-kind-' + cur[0])
            c = self.classes.get(cur[1])
            if c is None:
                raise Unk('receiver-class-unknown')
            params = [str(p.name) for p in c.type_parameters]
            if len(params) != len(cur[2]):
                raise Unk('receiver-arity')
            m = {}
            for p, a in zip(params, cur[2]):
                if a[0] == 'w':
                    approx = True
                m[p] = a
            pool = c.fields if want == 'field' else c.functions
            for d in pool:
                if str(d.name) == name:
                    return d, m, approx
            if not c.superclasses:
                return None, None, False
            cur = terms.subst(self.t(c.superclasses[0].class_type), m)
        raise Unk('chain-too-long')

    # ------------------------------------------------------------- expressions
    def ty(self, e, env):
        """Synthesised type term of expression e; raises Unk.  A value whose
        recorded type is a covariant projection `out X` is an X."""
        r = self._ty(e, env)
        hops = 0
        while r[0] == 'w' and hops < 4:
            if r[1] == COV and r[2] is not None:
                r = r[2]
            else:
                raise Unk('value-of-projection-type')
            hops += 1
        return r

    def _ty(self, e, env):
        ast = self.ast
        if isinstance(e, ast.BottomConstant):
            # every translator prints a typed bottom constant with a cast to its recorded type
            # (`TODO() as T`, `(T) null`, `???.asInstanceOf[T]`): that is its static type
            if getattr(e, 't', None) is not None:
                bt = self.t(e.t)
                if bt[0] not in terms.UNJUDGED_KINDS:
                    return bt
            return ('bot',)
        if isinstance(e, ast.IntegerConstant):
            return self.t(e.integer_type) if e.integer_type is not None else terms.to_term(self.f.get_integer_type())
        if isinstance(e, ast.RealConstant):
            return self.t(e.real_type)
        if isinstance(e, ast.BooleanConstant):
            return self.bool_t
        if isinstance(e, ast.CharConstant):
            return terms.to_term(self.f.get_char_type())
        if isinstance(e, ast.StringConstant):
            return terms.to_term(self.f.get_string_type())
        if isinstance(e, ast.Is) or isinstance(e, ast.BinaryOp):
            return self.bool_t
        if isinstance(e, ast.ArrayExpr):
            return self.t(e.array_type)
        if isinstance(e, ast.New):
            ct = self.t(e.class_type)
            if self.infer and ct[0] == 'c' and ct[2] and getattr(e.class_type, 'can_infer_type_args', False):
                m = self.solve_node(e, env)
                return ('c', ct[1], tuple(m[p] for p in self.class_params(ct[1])))
            return ct
        if isinstance(e, ast.Lambda):
            return self.t(e.signature)
        if isinstance(e, ast.FunctionReference):
            return self.t(e.signature)
        if isinstance(e, ast.Conditional):
            return self.t(e.inferred_type)
        if isinstance(e, ast.Block):
            if not e.body:
                raise Unk('empty-block')
            return self.ty(e.body[-1], self.block_env.get(id(e), env))
        if isinstance(e, ast.Variable):
            d = env.lookup(str(e.name))
            if d is None:
                raise Unk('unresolved-variable')
            if str(e.name) in env.casts:
                return env.casts[str(e.name)]
            t = self.decl_type(d)
            if env.is_member(str(e.name)):
                t = terms.subst(t, env.member_subst.get(str(e.name), {}))
            return t
        if isinstance(e, ast.FieldAccess):
            rt = self.ty(e.expr, env)
            d, m, approx = self.member(rt, str(e.field), 'field')
            if d is None:
                raise Unk('field-not-found')
            if approx:
                raise Unk('approximate')
            return terms.subst(self.t(d.field_type), m)
        if isinstance(e, ast.FunctionCall):
            return self.call_type(e, env)
        if isinstance(e, ast.Assignment):
            return terms.to_term(self.f.get_void_type())
        raise Unk('expr-' + type(e).__name__)

    def decl_type(self, d):
        ast = self.ast
        if isinstance(d, ast.VariableDeclaration):
            if self.infer and d.var_type is None:
                if id(d) not in self.inf_var and self.genv is not None and any(
                        g is d for g in self.globals.values()):
                    self.inf_var[id(d)] = None          # cycle guard
                    try:
                        self.inf_var[id(d)] = self.ty(d.expr, self.genv)
                    except Unk:
                        pass
                t = self.inf_var.get(id(d))
                if t is None:
                    raise Unk('omitted-variable-type-unknown')
                return t
            return self.t(d.inferred_type)
        if isinstance(d, ast.ParameterDeclaration):
            t = self.t(d.param_type)
            if d.vararg:
                raise Unk('vararg-parameter')
            return t
        if isinstance(d, ast.FieldDeclaration):
            return self.t(d.field_type)
        if isinstance(d, ast.FunctionDeclaration):
            return self.fun_ret(d)
        raise Unk('decl-' + type(d).__name__)

    def fun_ret(self, d):
        if self.infer and d.ret_type is None and d.body is not None:
            t = self.inf_ret.get(id(d))
            if t is None:
                raise Unk('omitted-return-type-unknown')
            return t
        return self.t(d.inferred_type)

    def resolve_call(self, e, env):
        """-> (kind, decl, substitution, approx) ; kind in fun / ref"""
        ast = self.ast
        name = str(e.func)
        if e.receiver is None:
            d = env.lookup(name)
            if d is None:
                return None
            m = dict(env.member_subst.get(name, {})) if env.is_member(name) else {}
            if isinstance(d, ast.FunctionDeclaration):
                return ('fun', d, m, False)
            return ('ref', d, m, False)
        rt = self.ty(e.receiver, env)
        if e.is_ref_call:
            d, m, approx = self.member(rt, name, 'field')
            if d is None:
                return None
            return ('ref', d, m, approx)
        d, m, approx = self.member(rt, name, 'function')
        if d is None:
            return None
        return ('fun', d, m, approx)

    def call_type(self, e, env):
        r = self.resolve_call(e, env)
        if r is None:
            raise Unk('unresolved-call')
        kind, d, m, approx = r
        if approx:
            raise Unk('approximate')
        if kind == 'ref':
            sig = terms.subst(self.decl_type(d), m)
            if sig[0] != 'c' or not sig[1].startswith('Function'):
                raise Unk('ref-not-function-type')
            rt = sig[2][-1]
            return rt[2] if rt[0] == 'w' and rt[1] == COV and rt[2] is not None else rt
        m = dict(m)
        if d.type_parameters:
            if self.infer and e.can_infer_type_args:
                m.update(self.solve_node(e, env))
            else:
                if not e.type_args or len(e.type_args) != len(d.type_parameters):
                    raise Unk('generic-call-without-type-arguments')
                for p, a in zip(d.type_parameters, e.type_args):
                    m[str(p.name)] = self.t(a)
        return terms.subst(self.fun_ret(d), m)

    # ----------------------------------------------------------------- checks
    def expect(self, rule, e, want, env, what):
        """value of expression e flows into a position of type `want`.
        Conditionals and blocks are checked bidirectionally: each branch / the
        last element against `want` (a conditional's own recorded type is a
        heuristic join, not what the context expects)."""
        ast = self.ast
        if isinstance(e, ast.Conditional):
            tenv = env
            if isinstance(e.cond, ast.Is) and isinstance(e.cond.lexpr, ast.Variable) and not e.cond.operator.is_not:
                tenv = env.child()
                tenv.casts = dict(env.casts)
                tenv.casts[str(e.cond.lexpr.name)] = self.t(e.cond.rexpr)
            self.expect('COND', e.true_branch, want, tenv, what + ' (true branch)')
            self.expect('COND', e.false_branch, want, env, what + ' (false branch)')
            return
        if isinstance(e, ast.Block):
            if not e.body:
                self.skip(rule, 'empty-block')
                return
            benv = self.block_env.get(id(e))
            if benv is None:
                self.skip(rule, 'block-not-visited')
                return
            if env.casts and not benv.casts:
                benv.casts = env.casts
            self.expect(rule, e.body[-1], want, benv, what)
            return
        try:
            if self.infer and id(e) in self.pending:
                self._want[id(e)] = want
            have = self.ty(e, env)
        except Unk as u:
            self.skip(rule, u.why)
            return
        a = self.assignable(have, want)
        if a is None:
            self.skip(rule, 'relation-unknown')
        elif a:
            self.ok(rule)
        else:
            self.bad(rule, '%s: %s is not assignable to %s' % (what, terms.term_str(have), terms.term_str(want)),
                     e, have=have, want=want)

    def check_targs(self, rule, params, args, m, what):
        """explicit type arguments vs declared bounds (params: IR TypeParameters)."""
        mm = dict(m)
        for p, a in zip(params, args):
            mm[str(p.name)] = a
        for p, a in zip(params, args):
            if p.bound is None:
                continue
            b = terms.subst(self.t(p.bound), mm)
            x = a
            if a[0] == 'w':
                if a[1] != COV or a[2] is None:
                    self.skip(rule, 'projection-argument')
                    continue
                x = a[2]
            if terms.has_kind(b, ('w',)):
                self.skip(rule, 'projected-bound')
                continue
            r = self.assignable(x, b) if not (x[0] == 'b' and b[0] == 'b') else terms.refsub3(x, b, self.T)
            if r is None:
                self.skip(rule, 'relation-unknown')
            elif r:
                self.ok(rule)
            else:
                self.bad(rule, '%s: type argument %s is not within the bound %s of %s' % (
                    what, terms.term_str(a), terms.term_str(b), p.name), None, arg=a, bound=b)

    def bind_args(self, e, d, what):
        """ARITY for a call of function declaration d -> [(parameter, argument)] or None."""
        params = list(d.params)
        args = list(e.args)
        named = [a for a in args if getattr(a, 'name', None)]
        positional = [a for a in args if not getattr(a, 'name', None)]
        pnames = [str(p.name) for p in params]
        has_vararg = any(bool(p.vararg) for p in params)
        vararg_p = next((p for p in params if p.vararg), None)
        named_names = [str(a.name) for a in named]
        if any(n not in pnames for n in named_names) or len(set(named_names)) != len(named_names):
            self.bad('ARITY', '%s: named argument(s) %s for parameters %s' % (what, named_names, pnames), e)
            return None
        rest = [p for p in params if not p.vararg and str(p.name) not in named_names]
        required = [p for p in rest if p.default is None]
        n = len(positional)
        if n < len(required) or (not has_vararg and n > len(rest)):
            self.bad('ARITY', '%s: %d positional + %d named argument(s) for parameters %s (%d required%s)' % (
                what, n, len(named), pnames, len(required), ', vararg' if has_vararg else ''), e)
            return None
        self.ok('ARITY')
        binding = [(params[pnames.index(str(a.name))], a) for a in named]
        if n == len(required):
            binding += list(zip(required, positional))
        elif n == len(rest):
            binding += list(zip(rest, positional))
        elif has_vararg:
            binding += list(zip(required, positional[:len(required)]))
            binding += [(vararg_p, a) for a in positional[len(required):]]
        else:
            self.skip('ARG', 'binding-unclear')
            return None
        return binding

    def check_args(self, e, d, m, env, what, binding=None):
        """ARITY + ARG for a call of function declaration d."""
        if binding is None:
            binding = self.bind_args(e, d, what)
        if binding is None:
            return
        for p, a in binding:
            pt = terms.subst(self.t(p.param_type), m)
            if p.vararg:
                if pt[0] == 'c' and len(pt[2]) == 1:
                    pt = pt[2][0]
                else:
                    self.skip('ARG', 'vararg-type')
                    continue
            if pt[0] == 'w':
                self.skip('ARG', 'projected-parameter')
                continue
            self.expect('ARG', a.expr, pt, env, '%s argument %s' % (what, p.name))

    # ------------------------------------------------- inference of omitted type arguments (C03)
    def solve_node(self, node, env, contextless=False):
        """Type arguments a compiler infers for a constructor / generic call whose explicit type
        arguments were omitted: {type parameter name: term}.  Sources, in order of strength:
        the expected type (threaded by `expect`), invariant positions of parameter types against
        the argument types, bare-variable parameters (lower bounds).  Raises Unk when the model
        cannot decide; a type parameter that NOTHING determines is a definite inference failure
        in Kotlin (it is `Nothing` in Scala and the bound/top in Java and Groovy)."""
        ast = self.ast
        nid = id(node)
        if nid in self.solved:
            r = self.solved[nid]
            if isinstance(r, Unk):
                raise r
            return r
        pend = self.pending.pop(nid, None)
        want = self._want.pop(nid, None)
        self.solved[nid] = Unk('inference-cycle')
        # the bounds of the type variables in scope at the node (a deferred node may be solved after
        # the walk has left its class / function)
        outer_bounds = self.tv_bounds
        if pend is not None:
            self.tv_bounds = pend[4]
        try:
            return self._solve_node(node, env, contextless, nid, pend, want)
        finally:
            self.tv_bounds = outer_bounds

    def _solve_node(self, node, env, contextless, nid, pend, want):
        ast = self.ast
        try:
            if isinstance(node, ast.New):
                ct = self.t(node.class_type)
                c = self.classes.get(ct[1])
                if c is None or len(node.args) != len(c.fields):
                    raise Unk('constructor-unknown')
                tparams = list(c.type_parameters)
                pairs = [(self.t(f.field_type), a) for f, a in zip(c.fields, node.args)]
                ret = ('c', ct[1], tuple(V(str(p.name)) for p in tparams))
                base, declared, what, binding, d = {}, list(ct[2]), 'new %s' % ct[1], None, None
            else:
                if pend is not None:
                    d, base = pend[2], dict(pend[3])
                else:
                    r = self.resolve_call(node, env)
                    if r is None or r[0] != 'fun' or r[3]:
                        raise Unk('callee-unknown')
                    d, base = r[1], dict(r[2])
                tparams = list(d.type_parameters)
                what = 'call of %s' % node.func
                binding = self.bind_args(node, d, what)
                if binding is None:
                    raise Unk('binding-unclear')
                pairs = []
                for p, a in binding:
                    pt = terms.subst(self.t(p.param_type), base)
                    if p.vararg:
                        if pt[0] == 'c' and len(pt[2]) == 1:
                            pt = pt[2][0]
                        else:
                            raise Unk('vararg-type')
                    pairs.append((pt, a.expr))
                ret = terms.subst(self.fun_ret(d), base)
                declared = [self.t(a) for a in (node.type_args or [])]
            m = self._solve(tparams, pairs, ret, want, env, contextless, node, what)
        except Unk as u:
            self.solved[nid] = u
            raise
        self.solved[nid] = m
        names = [str(p.name) for p in tparams]
        got = [m[n] for n in names]
        if declared and got == declared:
            self.ok('INFER')
        else:
            k = 'inferred-differs:type-arguments'
            self.unjudged[k] = self.unjudged.get(k, 0) + 1
            self.check_targs('TARG', tparams, got, base, what + ' (inferred type arguments)')
        full = dict(base)
        full.update(m)
        if isinstance(node, ast.New):
            if any(a[0] == 'w' for a in got):
                self.skip('ARG', 'constructor-of-projected-type')
            else:
                for (pt, a), fld in zip(pairs, self.classes[ret[1]].fields):
                    self.expect('ARG', a, terms.subst(pt, full), env,
                                'constructor argument %s of %s' % (fld.name, ret[1]))
        else:
            self.check_args(node, d, full, env, what, binding=binding)
        return m

    def _up_to(self, x, head):
        """the supertype of term x (x itself included) whose head is `head`, or None."""
        seen, todo = 0, [x]
        while todo and seen < 40:
            cur = todo.pop(0)
            seen += 1
            if cur[0] == 'c' and cur[1] == head:
                return cur
            if cur[0] == 'v':
                b = cur[3] if cur[3] is not None else self.tv_bounds.get(cur[1])
                if b is not None:
                    todo.append(b)
                continue
            try:
                todo.extend(terms.supers_of(cur, self.T))
            except terms.Unknown:
                return None
        return None

    def _unify(self, pat, t, names, eq, low=None, up=None):
        """pattern variable against a type: plain type -> equality; `in X` -> lower bound X;
        `out X` -> upper bound X (C<T> <: C<in X> iff X <: T; C<T> <: C<out X> iff T <: X)."""
        if pat[0] == 'v' and pat[1] in names:
            if t[0] == 'w':
                if t[2] is not None:
                    tgt = (low if t[1] == CON else up)
                    (tgt if tgt is not None else eq)[pat[1]].append(t[2])
            elif t[0] not in terms.UNJUDGED_KINDS:
                eq[pat[1]].append(t)
            return
        if pat[0] == 'c' and t[0] == 'c' and pat[1] == t[1] and len(pat[2]) == len(t[2]):
            for a, b in zip(pat[2], t[2]):
                self._unify(a, b, names, eq, low, up)
        elif pat[0] == 'w' and pat[2] is not None:
            if t[0] == 'w' and t[2] is not None and t[1] == pat[1]:
                self._unify(pat[2], t[2], names, eq)

    def _join(self, cands):
        """the candidate every other candidate is assignable to, or None."""
        for c in cands:
            if all(o == c or self.assignable(o, c) is True for o in cands):
                return c
        return None

    def _solve(self, tparams, pairs, ret, want, env, contextless, node, what):
        names = [str(p.name) for p in tparams]
        nameset = set(names)
        eq = {n: [] for n in names}
        low = {n: [] for n in names}
        up = {n: [] for n in names}
        incomplete = None
        if want is not None:
            w = want
            while w[0] == 'w' and w[2] is not None:
                w = w[2]
            if w[0] == 'c' and ret[0] == 'c':
                sup = self._up_to(ret, w[1])
                if sup is not None:
                    self._unify(sup, w, nameset, eq, low, up)
            elif ret[0] == 'v' and ret[1] in nameset and w[0] in ('c', 'b', 'v'):
                eq[ret[1]].append(w)
        for pat, arg in pairs:
            if not (terms.free_vars(pat) & nameset):
                continue
            if id(arg) in self.pending:
                incomplete = 'nested-inference'
                continue
            try:
                if isinstance(arg, self.ast.BottomConstant) and arg.t is not None:
                    at = self.t(arg.t)            # printed with a cast to its recorded type
                else:
                    at = self.ty(arg, env)
            except Unk as u:
                incomplete = 'argument:' + u.why
                continue
            if at == ('bot',):
                continue
            if pat[0] == 'v':
                low[pat[1]].append(at)
            elif pat[0] == 'c':
                sup = self._up_to(self.with_bounds(at), pat[1])
                if sup is None:
                    incomplete = 'argument-not-an-instance-of-parameter-class'
                    continue
                params = self.T.classes.get(pat[1], ([], []))[0]
                sub = {n: [] for n in names}
                self._unify(pat, strip_v(sup), nameset, sub)
                variant = any(p[1] != INV for p in params) or terms.has_kind(pat, ('w',))
                for n in names:
                    (low if variant else eq)[n].extend(sub[n])
            else:
                incomplete = 'parameter-kind-' + pat[0]
        m = {}
        later = []
        for n, p in zip(names, tparams):
            if not eq[n] and not low[n] and not up[n] and p.bound is not None and (
                    terms.free_vars(self.t(p.bound)) & nameset):
                # `class A<T1, T2 : T1>`: the tool's documented model of the compilers -- T2 is inferred
                # once the parameters its bound mentions are known
                later.append((n, p))
                continue
            if eq[n]:
                if any(c != eq[n][0] for c in eq[n]):
                    raise Unk('conflicting-equalities')
                m[n] = eq[n][0]
            elif low[n]:
                j = self._join(low[n])
                if j is None:
                    raise Unk('join-needed')
                m[n] = j
            elif up[n]:
                m[n] = up[n][0]
            elif incomplete:
                raise Unk(incomplete)
            elif contextless:
                raise Unk('no-context')
            elif self.lang == 'kotlin':
                self.bad('INFER', '%s: nothing determines the omitted type argument for %s (no expected type, '
                         'no argument mentions it)' % (what, n), node, kind='uninferable-type-argument')
                raise Unk('uninferable')
            elif self.lang == 'scala':
                m[n] = ('bot',)
            else:
                raise Unk('default-inference')
        for _ in range(len(later) + 1):
            for n, p in list(later):
                b = self.t(p.bound)
                if all(v in m for v in terms.free_vars(b) & nameset):
                    m[n] = terms.subst(b, m)
                    later.remove((n, p))
        if later:
            raise Unk('cyclic-dependent-bounds')
        return m

    # ------------------------------------------------------------------- walk
    def run(self):
        if not self.infer:
            return self._run()
        # pass 1 collects what the omitted return types are inferred to be (a call may precede
        # its callee in the walk); pass 2 is the one whose findings count
        self._run()
        self.findings, self.stats, self.unjudged = [], {}, {}
        self.inf_var, self.solved, self.pending, self._want = {}, {}, {}, {}
        self.block_env, self._keep = {}, []
        return self._run()

    def _run(self):
        ast = self.ast
        genv = Env(self)
        self.genv = genv
        self.check_unique([str(n) for n in self.globals], 'global scope')
        for name, d in self.globals.items():
            self.check_ident(str(name), d)
        for d in self.globals.values():
            if isinstance(d, ast.ClassDeclaration):
                self.visit_class(d, genv)
            elif isinstance(d, ast.FunctionDeclaration):
                self.visit_function(d, genv.child(), None)
            elif isinstance(d, ast.VariableDeclaration):
                self.visit_vardecl(d, genv, is_global=True)
        # inferable instantiations whose type nothing demanded (statement position, unjudged context)
        for nid in list(self.pending):
            if nid in self.pending:
                node, env = self.pending[nid][0], self.pending[nid][1]
                try:
                    self.solve_node(node, env, contextless=True)
                except Unk as u:
                    self.skip('INFER', u.why)
        return self

    def check_ident(self, name, d):
        self.ok('RESERVED') if name not in self.reserved else self.bad(
            'RESERVED', 'identifier %s is a reserved word of %s' % (name, self.lang), d, word=name)

    def check_unique(self, names, where):
        seen = set()
        for n in names:
            if n in seen:
                self.bad('UNIQUE', 'identifier %s is declared twice in %s' % (n, where), None, name=n)
            else:
                self.ok('UNIQUE')
            seen.add(n)

    def check_tyvars(self, t, env, what):
        """TYVAR: every variable in a recorded type is in scope."""
        if t is None:
            return
        for n in terms.free_vars(self.t(t)):
            if n in env.tvars:
                self.ok('TYVAR')
            else:
                self.bad('TYVAR', '%s mentions type variable %s which is not in scope' % (what, n), None, var=n)

    def visit_class(self, c, genv):
        ast = self.ast
        env = genv.child()
        env.cls = c
        env.tvars = set(str(p.name) for p in c.type_parameters)
        saved = dict(self.tv_bounds)
        for p in c.type_parameters:
            self.check_ident(str(p.name), p)
            self.tv_bounds[str(p.name)] = None if p.bound is None else self.t(p.bound)
            self.check_tyvars(p.bound, env, 'bound of %s' % p.name)
        self.check_unique([str(p.name) for p in c.type_parameters], 'type parameters of %s' % c.name)
        self.check_unique([str(x.name) for x in list(c.fields) + list(c.functions)], 'class %s' % c.name)
        env.this_subst = {}
        # members, own and inherited, become visible names (implicit this)
        chain = []
        cur, m, n = c, {}, 0
        while cur is not None and n < 12:
            n += 1
            chain.append((cur, dict(m)))
            if not cur.superclasses:
                break
            st = terms.subst(self.t(cur.superclasses[0].class_type), m)
            nxt = self.classes.get(st[1]) if st[0] == 'c' else None
            if nxt is None:
                break
            params = [str(p.name) for p in nxt.type_parameters]
            m = dict(zip(params, st[2])) if st[0] == 'c' and len(params) == len(st[2]) else {}
            cur = nxt
        for cls, m in reversed(chain):
            for x in list(cls.fields) + list(cls.functions):
                env.names[str(x.name)] = x
                env.member_subst[str(x.name)] = m
        # superclasses
        for s in c.superclasses:
            st = self.t(s.class_type)
            self.check_tyvars(s.class_type, env, 'supertype of %s' % c.name)
            sc = self.classes.get(st[1]) if st[0] == 'c' else None
            if sc is None:
                self.skip('FINALSUPER', 'superclass-unknown')
                continue
            if sc.is_final and sc.class_type != ast.ClassDeclaration.INTERFACE:
                self.bad('FINALSUPER', 'class %s inherits from the final class %s' % (c.name, sc.name), c)
            else:
                self.ok('FINALSUPER')
            if st[2]:
                self.check_targs('TARG', sc.type_parameters, list(st[2]), {}, 'supertype %s of %s' % (
                    terms.term_str(st), c.name))
            if s.args is not None and sc.class_type != ast.ClassDeclaration.INTERFACE:
                if len(s.args) != len(sc.fields):
                    self.bad('ARITY', 'super constructor call of %s passes %d argument(s) for %d field(s)' % (
                        c.name, len(s.args), len(sc.fields)), s)
                else:
                    self.ok('ARITY')
                    mm = dict(zip([str(p.name) for p in sc.type_parameters], st[2]))
                    for fld, a in zip(sc.fields, s.args):
                        self.expect('ARG', a, terms.subst(self.t(fld.field_type), mm), env,
                                    'super constructor argument %s' % fld.name)
        for fld in c.fields:
            self.check_ident(str(fld.name), fld)
            self.check_tyvars(fld.field_type, env, 'field %s' % fld.name)
        self.check_inheritance(c, chain)
        for fn in c.functions:
            self.visit_function(fn, env.child(), c)
        self.tv_bounds = saved

    def check_inheritance(self, c, chain):
        """ABSTRACT / OVERRIDE along the single-superclass chain."""
        ast = self.ast
        if len(chain) < 1:
            return
        own = {str(f.name): f for f in c.functions}
        # OVERRIDE: an overriding function has an overridable counterpart
        for f in c.functions:
            if not f.override:
                continue
            found = None
            for cls, m in chain[1:]:
                for g in cls.functions:
                    if str(g.name) == str(f.name):
                        found = (g, m)
                        break
                if found:
                    break
            if not found:
                if len(c.superclasses) > 1 or any(self.classes.get(self.t(s.class_type)[1]) is None
                                                  for s in c.superclasses):
                    self.skip('OVERRIDE', 'other-supertypes')
                else:
                    self.bad('OVERRIDE', 'function %s.%s is marked override but no supertype declares it' % (
                        c.name, f.name), f)
                continue
            g, m = found
            if g.is_final:
                self.bad('OVERRIDE', '%s.%s overrides a final function' % (c.name, f.name), f)
                continue
            if len(g.params) != len(f.params):
                self.bad('OVERRIDE', '%s.%s overrides a function with another number of parameters' % (
                    c.name, f.name), f)
                continue
            if f.type_parameters or g.type_parameters:
                self.skip('OVERRIDE', 'generic-function')
                continue
            okp = True
            for p, q in zip(f.params, g.params):
                if self.t(p.param_type) != terms.subst(self.t(q.param_type), m):
                    okp = False
            if not okp:
                self.bad('OVERRIDE', '%s.%s changes a parameter type of the overridden function' % (
                    c.name, f.name), f)
                continue
            r = self.assignable(self.t(f.inferred_type), terms.subst(self.t(g.inferred_type), m))
            if r is False:
                self.bad('OVERRIDE', '%s.%s: result type %s is not a subtype of the overridden %s' % (
                    c.name, f.name, terms.term_str(self.t(f.inferred_type)),
                    terms.term_str(terms.subst(self.t(g.inferred_type), m))), f)
            elif r is None:
                self.skip('OVERRIDE', 'relation-unknown')
            else:
                self.ok('OVERRIDE')
        # ABSTRACT: a regular class implements every abstract function of its chain
        if c.class_type == ast.ClassDeclaration.REGULAR:
            if len(c.superclasses) > 1:
                self.skip('ABSTRACT', 'several-supertypes')
                return
            implemented = set()
            for cls, m in chain:
                for g in cls.functions:
                    if g.body is not None:
                        implemented.add(str(g.name))
                    elif str(g.name) not in implemented:
                        self.bad('ABSTRACT', 'class %s does not implement abstract %s.%s' % (
                            c.name, cls.name, g.name), c, function=str(g.name))
                    else:
                        self.ok('ABSTRACT')

    def visit_function(self, fn, env, cls):
        ast = self.ast
        env.fn = fn
        saved = dict(self.tv_bounds)
        self.check_ident(str(fn.name), fn)
        env.tvars = set(env.tvars) | set(str(p.name) for p in fn.type_parameters)
        for p in fn.type_parameters:
            self.check_ident(str(p.name), p)
            self.tv_bounds[str(p.name)] = None if p.bound is None else self.t(p.bound)
            self.check_tyvars(p.bound, env, 'bound of %s' % p.name)
        names = [str(p.name) for p in fn.type_parameters]
        self.check_unique(names, 'type parameters of %s' % fn.name)
        if cls is not None:
            for n in names:
                if n in set(str(p.name) for p in cls.type_parameters):
                    self.bad('UNIQUE', 'type parameter %s of %s clashes with one of class %s' % (n, fn.name, cls.name),
                             fn, name=n)
        self.check_unique([str(p.name) for p in fn.params], 'parameters of %s' % fn.name)
        for p in fn.params:
            self.check_ident(str(p.name), p)
            self.check_tyvars(p.param_type, env, 'parameter %s' % p.name)
            if p.default is not None:
                self.visit_expr(p.default, env)
                self.expect('DEFAULT', p.default, self.t(p.param_type), env, 'default of %s' % p.name)
            env.names[str(p.name)] = p
        self.check_tyvars(fn.inferred_type, env, 'result of %s' % fn.name)
        if fn.body is not None and self.infer and fn.ret_type is None:
            self.visit_omitted_ret(fn, env)
        elif fn.body is not None:
            self.visit_body(fn.body, env, self.t(fn.inferred_type), 'function %s' % fn.name)
        self.tv_bounds = saved

    def visit_omitted_ret(self, fn, env):
        """inference mode: the result type of a function without a declared one is what its body
        synthesises (no expected type); only an expression body lets a compiler do that."""
        ast = self.ast
        void = terms.to_term(self.f.get_void_type())
        recorded = self.t(fn.inferred_type)
        if isinstance(fn.body, ast.Block):
            self.visit_block(fn.body, env)
            if recorded != void:
                self.bad('INFER', 'function %s has a block body and a non-void result but no declared return type'
                         % fn.name, fn, function=str(fn.name), kind='block-body')
            self.inf_ret[id(fn)] = recorded
            return
        self.visit_expr(fn.body, env)
        try:
            if isinstance(fn.body, ast.BottomConstant) and fn.body.t is not None:
                t = self.t(fn.body.t)
            else:
                t = self.ty(fn.body, env)
            self.inf_ret[id(fn)] = t
            self.judge_inferred('function', fn, t, recorded)
        except Unk as u:
            self.inf_ret.setdefault(id(fn), None)
            self.skip('INFER', u.why)

    def judge_inferred(self, what, d, got, recorded):
        """information + one definite rule: the inferred type of an omitted annotation is compared
        with the recorded one; a *different* type is not an error by itself (uses decide)."""
        if got == recorded:
            self.ok('INFER')
        else:
            k = 'inferred-differs:%s' % what
            self.unjudged[k] = self.unjudged.get(k, 0) + 1
            self.inferred_differs = getattr(self, 'inferred_differs', [])
            self.inferred_differs.append((what, str(d.name), got, recorded))

    def visit_body(self, body, env, ret, what):
        ast = self.ast
        void = terms.to_term(self.f.get_void_type())
        if isinstance(body, ast.Block):
            self.visit_block(body, env)
            if ret != void and body.body:
                self.expect('RET', body.body[-1], ret, env, 'result of ' + what)
        else:
            self.visit_expr(body, env)
            if ret != void:
                self.expect('RET', body, ret, env, 'result of ' + what)

    def visit_block(self, block, env):
        ast = self.ast
        self.block_env[id(block)] = env
        self._keep.append(block)
        local_names = []
        for s in block.body:
            if isinstance(s, ast.VariableDeclaration):
                self.visit_vardecl(s, env)
                local_names.append(str(s.name))
            elif isinstance(s, ast.FunctionDeclaration):
                env.names[str(s.name)] = s
                local_names.append(str(s.name))
                self.visit_function(s, env.child(), env.cls)
            else:
                self.visit_expr(s, env)
        dup = [n for n in set(local_names) if local_names.count(n) > 1]
        for n in dup:
            self.bad('UNIQUE', 'identifier %s is declared twice in one block' % n, block, name=n)

    def visit_vardecl(self, d, env, is_global=False):
        self.check_ident(str(d.name), d)
        self.check_tyvars(d.inferred_type, env, 'variable %s' % d.name)
        self.visit_expr(d.expr, env)
        if self.infer and d.var_type is None:
            try:
                if isinstance(d.expr, ast_BottomConstant(self)) and d.expr.t is not None:
                    t = self.t(d.expr.t)          # printed with a cast to its recorded type
                else:
                    t = self.ty(d.expr, env)
                self.inf_var[id(d)] = t
                self.judge_inferred('variable', d, t, self.t(d.inferred_type))
            except Unk as u:
                self.inf_var.setdefault(id(d), None)
                self.skip('INFER', u.why)
        else:
            self.expect('INIT', d.expr, self.t(d.inferred_type), env, 'initializer of %s' % d.name)
        if not is_global:
            if str(d.name) in env.own:
                self.bad('UNIQUE', 'variable %s is declared twice in one scope' % d.name, d, name=str(d.name))
            env.own.add(str(d.name))
            env.names[str(d.name)] = d

    def visit_expr(self, e, env):
        ast = self.ast
        if e is None:
            return
        if self.gen_expect and id(e) in self.gen_expect:
            # the type Generator.generate_expr was asked for when it produced this very node
            for want in self.gen_expect.pop(id(e)):
                if isinstance(e, ast.BottomConstant) and e.t is None:
                    self.skip('GENEXPR', 'untyped-bottom')
                elif want[0] in terms.UNJUDGED_KINDS or terms.has_kind(want, ('w',)):
                    self.skip('GENEXPR', 'requested-type-not-judgeable')
                elif not (terms.free_vars(want) <= env.tvars):
                    self.skip('GENEXPR', 'requested-type-mentions-variable-out-of-scope-here')
                else:
                    self.expect('GENEXPR', e, want, env, 'generate_expr(%s)' % terms.term_str(want))
        if isinstance(e, ast.Variable):
            if env.lookup(str(e.name)) is None:
                self.bad('RESOLVE', 'variable %s does not resolve to a visible declaration' % e.name, e,
                         name=str(e.name), kind='variable')
            else:
                self.ok('RESOLVE')
            return
        if isinstance(e, ast.Block):
            self.visit_block(e, env.child(keep_fn=True))
            return
        if isinstance(e, ast.Conditional):
            self.visit_expr(e.cond, env)
            self.expect('COND', e.cond, self.bool_t, env, 'condition')
            tenv = env.child(keep_fn=True)
            if isinstance(e.cond, ast.Is) and isinstance(e.cond.lexpr, ast.Variable) and not e.cond.operator.is_not:
                tenv.casts = dict(env.casts)
                tenv.casts[str(e.cond.lexpr.name)] = self.t(e.cond.rexpr)
            self.visit_expr(e.true_branch, tenv)
            self.visit_expr(e.false_branch, env.child(keep_fn=True))
            return
        if isinstance(e, ast.Is):
            self.visit_expr(e.lexpr, env)
            self.check_tyvars(e.rexpr, env, 'is-type')
            return
        if isinstance(e, ast.BinaryOp):
            self.visit_expr(e.lexpr, env)
            self.visit_expr(e.rexpr, env)
            return
        if isinstance(e, ast.ArrayExpr):
            at = self.t(e.array_type)
            for x in e.exprs:
                self.visit_expr(x, env)
                if at[0] == 'c' and len(at[2]) == 1:
                    self.expect('ELEM', x, at[2][0], env, 'array element')
            return
        if isinstance(e, ast.New):
            self.check_tyvars(e.class_type, env, 'constructor type')
            ct = self.t(e.class_type)
            for a in e.args:
                self.visit_expr(a, env)
            c = self.classes.get(ct[1]) if ct[0] == 'c' else None
            if c is None:
                if ct[0] == 'c' and ('@' in ct[1]):
                    self.skip('CONCRETE', 'builtin-constructor')
                elif ct[0] == 'b':
                    self.skip('CONCRETE', 'builtin')
                else:
                    self.bad('RESOLVE', 'constructor call of unknown class %s' % terms.term_str(ct), e,
                             name=terms.term_str(ct), kind='class')
                return
            self.ok('RESOLVE')
            if c.class_type != ast.ClassDeclaration.REGULAR:
                self.bad('CONCRETE', 'instantiation of the %s %s' % (c.get_class_prefix(), c.name), e)
                return
            if len(e.args) != len(c.fields):
                self.bad('CONCRETE', 'constructor of %s called with %d argument(s) for %d field(s)' % (
                    c.name, len(e.args), len(c.fields)), e)
                return
            self.ok('CONCRETE')
            if self.infer and ct[2] and getattr(e.class_type, 'can_infer_type_args', False):
                if id(e) not in self.solved:
                    self.pending[id(e)] = (e, env, c, {}, dict(self.tv_bounds))
                self._keep.append(e)
                return
            m = dict(zip([str(p.name) for p in c.type_parameters], ct[2]))
            if ct[2] and not getattr(e.class_type, 'can_infer_type_args', False):
                self.check_targs('TARG', c.type_parameters, list(ct[2]), {}, 'new %s' % terms.term_str(ct))
            if any(a[0] == 'w' for a in ct[2]):
                for _ in e.args:
                    self.skip('ARG', 'constructor-of-projected-type')
                return
            for fld, a in zip(c.fields, e.args):
                self.expect('ARG', a, terms.subst(self.t(fld.field_type), m), env,
                            'constructor argument %s of %s' % (fld.name, c.name))
            return
        if isinstance(e, ast.FieldAccess):
            self.visit_expr(e.expr, env)
            try:
                rt = self.ty(e.expr, env)
                d, m, approx = self.member(rt, str(e.field), 'field')
                if d is None:
                    self.bad('RESOLVE', 'field %s is not a member of %s' % (e.field, terms.term_str(rt)), e,
                             name=str(e.field), kind='field')
                else:
                    self.ok('RESOLVE')
            except Unk as u:
                self.skip('RESOLVE', u.why)
            return
        if isinstance(e, ast.FunctionCall):
            if e.receiver is not None:
                self.visit_expr(e.receiver, env)
            for a in e.args:
                self.visit_expr(a.expr, env)
            for t in e.type_args or []:
                self.check_tyvars(t, env, 'call type argument')
            try:
                r = self.resolve_call(e, env)
            except Unk as u:
                self.skip('RESOLVE', u.why)
                return
            if r is None:
                self.bad('RESOLVE', 'call of %s does not resolve to a visible function' % e.func, e,
                         name=str(e.func), kind='function')
                return
            self.ok('RESOLVE')
            kind, d, m, approx = r
            if kind == 'fun' and env.fn is not None and d is env.fn and env.fn.ret_type is None \
                    and env.fn.body is not None and not isinstance(env.fn.body, ast.Block):
                # inference: the result type of an expression-bodied function without a declared
                # return type cannot be inferred from a body that calls the function itself
                self.bad('INFER', 'function %s has no declared return type but its body calls it' % d.name, e,
                         function=str(d.name))
            elif kind == 'fun' and env.fn is not None and env.fn.ret_type is None:
                self.ok('INFER')
            if kind == 'fun':
                mm = dict(m)
                if d.type_parameters and self.infer and e.can_infer_type_args:
                    if approx:
                        self.skip('INFER', 'approximate')
                        return
                    if id(e) not in self.solved:
                        self.pending[id(e)] = (e, env, d, mm, dict(self.tv_bounds))
                    self._keep.append(e)
                    return
                if d.type_parameters:
                    if e.type_args and len(e.type_args) == len(d.type_parameters):
                        targs = [self.t(a) for a in e.type_args]
                        if not e.can_infer_type_args:
                            self.check_targs('TARG', d.type_parameters, targs, mm, 'call of %s' % e.func)
                        for p, a in zip(d.type_parameters, targs):
                            mm[str(p.name)] = a
                    else:
                        for _ in e.args:
                            self.skip('ARG', 'generic-call-without-type-arguments')
                        return
                if approx:
                    for _ in e.args:
                        self.skip('ARG', 'approximate')
                    return
                self.check_args(e, d, mm, env, 'call of %s' % e.func)
            else:
                try:
                    sig = terms.subst(self.decl_type(d), m)
                except Unk as u:
                    self.skip('ARG', u.why)
                    return
                if sig[0] != 'c' or not sig[1].startswith('Function'):
                    self.skip('ARITY', 'callee-not-function-typed')
                    return
                if len(sig[2]) - 1 != len(e.args):
                    self.bad('ARITY', 'call through %s passes %d argument(s) to %s' % (
                        e.func, len(e.args), terms.term_str(sig)), e)
                    return
                self.ok('ARITY')
                if approx:
                    return
                for pt, a in zip(sig[2][:-1], e.args):
                    if pt[0] == 'w':
                        if pt[1] == CON and pt[2] is not None:
                            pt = pt[2]
                        else:
                            self.skip('ARG', 'projected-parameter')
                            continue
                    self.expect('ARG', a.expr, pt, env, 'argument of %s' % e.func)
            return
        if isinstance(e, ast.FunctionReference):
            if e.receiver is not None:
                self.visit_expr(e.receiver, env)
            try:
                if e.receiver is None:
                    d = env.lookup(str(e.func))
                else:
                    rt = self.ty(e.receiver, env)
                    d, _, _ = self.member(rt, str(e.func), 'function')
                if d is None or not isinstance(d, ast.FunctionDeclaration):
                    self.bad('RESOLVE', 'function reference %s does not resolve to a function' % e.func, e,
                             name=str(e.func), kind='function-reference')
                else:
                    self.ok('RESOLVE')
            except Unk as u:
                self.skip('RESOLVE', u.why)
            return
        if isinstance(e, ast.Lambda):
            lenv = env.child()
            lenv.in_lambda = True
            lenv.lambda_outer = env
            for p in e.params:
                self.check_ident(str(p.name), p)
                lenv.names[str(p.name)] = p
            if e.body is not None and e.ret_type is not None:
                self.visit_body(e.body, lenv, self.t(e.ret_type), 'lambda')
            elif e.body is not None:
                self.visit_expr(e.body, lenv)
            return
        if isinstance(e, ast.Assignment):
            if e.receiver is not None:
                self.visit_expr(e.receiver, env)
            self.visit_expr(e.expr, env)
            try:
                if e.receiver is None:
                    d = env.lookup(str(e.name))
                    m = env.member_subst.get(str(e.name), {})
                else:
                    rt = self.ty(e.receiver, env)
                    d, m, approx = self.member(rt, str(e.name), 'field')
                    if approx:
                        raise Unk('approximate')
                if d is None:
                    self.bad('RESOLVE', 'assignment target %s does not resolve' % e.name, e,
                             name=str(e.name), kind='assignment-target')
                    return
                self.ok('RESOLVE')
                final = getattr(d, 'is_final', True) if not isinstance(d, ast.ParameterDeclaration) else True
                if final:
                    self.bad('MUTABLE', 'assignment to the final %s %s' % (type(d).__name__, e.name), e)
                else:
                    self.ok('MUTABLE')
                if self.lang == 'java' and env.is_captured(str(e.name)):
                    self.bad('MUTABLE', 'a Java lambda assigns the captured local %s' % e.name, e, capture=True)
                self.expect('ASSIGN', e.expr, terms.subst(self.decl_type(d), m or {}), env,
                            'assignment to %s' % e.name)
            except Unk as u:
                self.skip('ASSIGN', u.why)
            return
        # constants and the rest: nothing to resolve
        return


def ast_BottomConstant(ck):
    return ck.ast.BottomConstant


class Env:
    def __init__(self, checker, parent=None):
        self.ck = checker
        self.parent = parent
        self.names = {}
        self.own = set()
        self.member_subst = {} if parent is None else parent.member_subst
        self.tvars = set() if parent is None else set(parent.tvars)
        self.cls = None if parent is None else parent.cls
        self.fn = None if parent is None else parent.fn
        self.this_subst = {} if parent is None else parent.this_subst
        self.casts = {} if parent is None else parent.casts
        self.in_lambda = False if parent is None else parent.in_lambda
        self.lambda_outer = None if parent is None else parent.lambda_outer

    def child(self, keep_fn=False):
        return Env(self.ck, self)

    def lookup(self, name):
        e = self
        while e is not None:
            if name in e.names:
                return e.names[name]
            e = e.parent
        return self.ck.globals.get(name)

    def is_member(self, name):
        """Does `name` resolve to a class member (not shadowed by a local)?"""
        e = self
        while e is not None:
            if name in e.names:
                return type(e.names[name]).__name__ in ('FieldDeclaration',) or (
                    type(e.names[name]).__name__ == 'FunctionDeclaration' and e.cls is not None
                    and any(f is e.names[name] for c in [e.cls] for f in c.functions)) or name in e.member_subst \
                    and e.names[name] is not None and type(e.names[name]).__name__ in (
                        'FieldDeclaration', 'FunctionDeclaration') and e.parent is not None and e.parent.parent is None
            e = e.parent
        return False

    def is_captured(self, name):
        """Is `name` a local of a function enclosing the innermost lambda?"""
        if not self.in_lambda or self.lambda_outer is None:
            return False
        e = self
        while e is not None and e is not self.lambda_outer:
            if name in e.names:
                return False
            e = e.parent
        from_outer = self.lambda_outer
        while from_outer is not None:
            if name in from_outer.names:
                d = from_outer.names[name]
                return type(d).__name__ in ('VariableDeclaration', 'ParameterDeclaration')
            from_outer = from_outer.parent
        return False
