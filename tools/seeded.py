#!/usr/bin/env python3
"""Validate a seeded mutant and run the property's check against it.

  tools/seeded.py <mutant-dir> [--tier quick|thorough] [--keep]

<mutant-dir> holds patch.diff, demo.py, meta.json (property id).  Steps: scratch
copy of /repo under /tmp, apply the patch, unit tests must pass, demo must pass
on /repo and fail on the copy, then `VERIF_REPO=<copy> ./check <ID> <tier>`.
The outcome is merged into /verif/seeded/<mutant-id>/meta.json."""
import json
import os
import shutil
import subprocess
import sys
import time

VERIF = os.path.dirname(os.path.dirname(os.path.abspath(__file__)))


def sh(cmd, cwd=None, env=None, timeout=3600):
    t = time.time()
    try:
        p = subprocess.run(cmd, shell=True, cwd=cwd, env=env, capture_output=True, text=True, timeout=timeout)
        return p.returncode, p.stdout + p.stderr, time.time() - t
    except subprocess.TimeoutExpired:
        return 124, 'TIMEOUT', time.time() - t


def main():
    src = os.path.abspath(sys.argv[1])
    tier = 'quick'
    if '--tier' in sys.argv:
        tier = sys.argv[sys.argv.index('--tier') + 1]
    mid = os.path.basename(src.rstrip('/'))
    meta = json.load(open(os.path.join(src, 'meta.json')))
    prop = meta['property']
    dst = os.path.join(VERIF, 'seeded', mid)
    os.makedirs(dst, exist_ok=True)
    for f in ('patch.diff', 'demo.py'):
        if os.path.abspath(os.path.join(src, f)) != os.path.abspath(os.path.join(dst, f)):
            shutil.copy(os.path.join(src, f), os.path.join(dst, f))
    copy = '/tmp/mut-%s' % mid
    shutil.rmtree(copy, ignore_errors=True)
    sh('git -C /repo worktree prune')
    rc, out, _ = sh('git -C /repo worktree add --detach %s HEAD' % copy)
    res = {'property': prop, 'summary': meta.get('summary'), 'needs': meta.get('needs'),
           'files': meta.get('files'), 'ran': {}}
    try:
        rc, out, _ = sh('git apply %s' % os.path.join(dst, 'patch.diff'), cwd=copy)
        res['ran']['git_apply'] = rc
        if rc != 0:
            res['verdict'] = 'patch-does-not-apply'
            res['ran']['git_apply_out'] = out[-500:]
            return finish(dst, res, copy)
        rc, out, t = sh('/venv/bin/python -m pytest -q -p no:cacheprovider -x tests 2>&1 | tail -3', cwd=copy, timeout=900)
        res['ran']['unit_tests'] = {'passed': '161 passed' in out, 'tail': out[-200:]}
        env = dict(os.environ, PYTHONHASHSEED='0')
        rc0, o0, _ = sh('/venv/bin/python %s /repo' % os.path.join(dst, 'demo.py'), cwd='/tmp', env=env, timeout=900)
        rc1, o1, _ = sh('/venv/bin/python %s %s' % (os.path.join(dst, 'demo.py'), copy), cwd='/tmp', env=env, timeout=900)
        res['ran']['demo'] = {'clean_rc': rc0, 'mutant_rc': rc1, 'mutant_tail': o1[-400:]}
        valid = res['ran']['unit_tests']['passed'] and rc0 == 0 and rc1 != 0
        res['valid_mutant'] = valid
        checks = [prop] + [p for p in meta.get('also_check', [])]
        res['ran']['checks'] = {}
        for pid in checks:
            env2 = dict(os.environ, VERIF_REPO=copy, VERIF_EVIDENCE='/tmp/seeded-evidence-%s' % mid)
            rc, out, t = sh('./check %s %s' % (pid, tier), cwd=VERIF, env=env2, timeout=7200)
            viol = [l for l in out.split('\n') if l.startswith('VIOLATION')]
            mech = [l.strip()[:300] for l in out.split('\n') if l.strip().startswith('mech=')]
            res['ran']['checks'][pid] = {'tier': tier, 'rc': rc, 'wall_s': round(t), 'violations': len(viol),
                                         'first': mech[:3], 'summary': out.strip().split('\n')[-1][:300]}
        res['caught_by'] = [p for p, r in res['ran']['checks'].items() if r['rc'] == 1 and r['violations']]
        res['verdict'] = ('caught' if res['caught_by'] else 'missed') if valid else 'invalid-mutant'
    finally:
        pass
    return finish(dst, res, copy)


def finish(dst, res, copy):
    shutil.rmtree('/tmp/seeded-evidence-%s' % os.path.basename(dst), ignore_errors=True)
    if '--keep' not in sys.argv:
        sh('git -C /repo worktree remove --force %s' % copy)
        shutil.rmtree(copy, ignore_errors=True)
    p = os.path.join(dst, 'meta.json')
    old = {}
    if os.path.exists(p):
        try:
            old = json.load(open(p))
        except ValueError:
            pass
    hist = old.get('history', [])
    if old.get('ran'):
        hist.append({'verdict': old.get('verdict'), 'caught_by': old.get('caught_by'),
                     'checks': {k: (v.get('tier'), v.get('rc')) for k, v in old.get('ran', {}).get('checks', {}).items()}})
    res['history'] = hist[-5:]
    with open(p, 'w') as f:
        json.dump(res, f, indent=1)
    print(os.path.basename(dst), res.get('verdict'), res.get('caught_by'),
          {k: (v['rc'], v['violations'], v['wall_s']) for k, v in res.get('ran', {}).get('checks', {}).items()})
    return 0


if __name__ == '__main__':
    sys.exit(main())
