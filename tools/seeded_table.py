#!/usr/bin/env python3
"""Print the markdown table of seeded changes from seeded/*/meta.json."""
import glob
import json
import os

ROOT = os.path.dirname(os.path.dirname(os.path.abspath(__file__)))
rows = []
for p in sorted(glob.glob(os.path.join(ROOT, 'seeded', '*', 'meta.json'))):
    m = json.load(open(p))
    mid = os.path.basename(os.path.dirname(p))
    checks = m.get('ran', {}).get('checks', {})
    res = '; '.join('%s %s: %s (%d VIOLATION lines, %ds)' % (
        k, v.get('tier'), {0: 'silent', 1: 'fired', 2: 'inconclusive'}.get(v.get('rc'), 'rc=%s' % v.get('rc')),
        v.get('violations', 0), v.get('wall_s', 0)) for k, v in checks.items())
    hist = m.get('history', [])
    first = ''
    if hist:
        h = hist[0]
        first = ' (first run: %s)' % h.get('verdict')
    rows.append('| %s | %s | %s | %s | %s%s |' % (
        mid, m.get('property'), (m.get('summary') or '').replace('|', '/')[:160],
        (m.get('needs') or '').replace('|', '/')[:140], m.get('verdict'), first))
print('| id | property | change | needs | outcome |')
print('|----|----------|--------|-------|---------|')
print('\n'.join(rows))
