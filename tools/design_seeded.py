#!/usr/bin/env python3
"""(Re)generate section 13 of DESIGN.md from seeded/*/meta.json."""
import os
import subprocess

ROOT = os.path.dirname(os.path.dirname(os.path.abspath(__file__)))
p = os.path.join(ROOT, 'DESIGN.md')
s = open(p).read()
marker = '\n## Appendix A — the core oracle, as used in exploration'
table = subprocess.check_output(['python3', os.path.join(ROOT, 'tools', 'seeded_table.py')]).decode()
sec = '''
## 13. Seeded changes (independent sub-agents) and which checks catch them

Ten fresh sub-agents, each given only the text of one or two properties and its own git worktree of the
repository (nothing from /verif), produced 39 changes that break a property while all 161 unit tests still
pass, each with a demonstration that fails with the change and passes without it.  `tools/seeded.py` validates
a change (patch applies on a scratch worktree, unit tests pass there, demonstration passes on /repo and fails on
the copy) and then runs `VERIF_REPO=<copy> ./check <ID> quick`; everything is kept under `seeded/<id>/`
(`patch.diff`, `demo.py`, `meta.json` with what was run and the outcome).  A "first run: missed" entry means the
check was strengthened afterwards (more observability or a denser workload, never a looser oracle):

* C10-1, C10-2 -> top-level variable patterns and patterns whose variable bounds mention earlier pattern variables;
* C07-2 -> the harness writes to its own argument list after `new()` and re-digests the instantiation;
* C14-2 -> javac crash traces whose `java.lang` exception name does not start its line;
* C09-1, C09-2 -> finer mechanism keys for the known findings (base variance of dependent parameters; plain vs
  through-variance relation; "returned the query itself"), so that the known entries no longer mask them;
* C11-2 -> `--cast-numbers` cells in the quick tier; C12-1 -> explicit call type arguments (Kotlin/Scala);
  C12-2 -> Groovy closure return annotation; C03-1 -> INFER rule (expression-bodied function without declared
  return type that calls itself) evaluated by the reference checker after every erasure;
* C04-1, C04-2 -> extra injections per program in the quick tier; C05-1 -> identifier-pool invariant at the
  start of every case and a fresh 10 000-word pool per cell; C18-2 -> more default-configuration cases.

Not caught: **C03-2** (a constructor-call receiver tied to the expected type of the whole call): none of 400
generated programs reaches it (the agent's demonstration is a hand-built IR program); the monitors only see what
the real generator produces, so it is out of reach of the workloads (javac on the erased Java text would reject
a generated program of that shape).

''' + table
if '\n## 13. Seeded changes' in s:
    s = s[:s.index('\n## 13. Seeded changes')] + sec + s[s.index(marker):]
else:
    s = s.replace(marker, sec + marker)
open(p, 'w').write(s)
print('section 13 written')
