#!/bin/sh
# tools/sweep.sh <seed> <tier> [ids...]: run checks with VERIF_SEED=<seed>, evidence redirected (never overwrites ./evidence)
seed=$1; tier=$2; shift 2
ids="$@"; [ -z "$ids" ] && ids="C01 C02 C03 C04 C05 C06 C07 C08 C09 C10 C11 C12 C13 C14 C15 C16 C17 C18 C19"
cd "$(dirname "$0")/.." || exit 3
for i in $ids; do
  VERIF_SEED=$seed VERIF_EVIDENCE=/tmp/ev_sweep_${seed}_$tier ./check $i $tier > /tmp/sweep_${seed}_${tier}_$i.log 2>&1
  echo "$i seed=$seed tier=$tier rc=$? $(tail -1 /tmp/sweep_${seed}_${tier}_$i.log | cut -c1-160)"
done
