#!/usr/bin/env python3
"""Regenerate MANIFEST.json from the table below."""
import json
import os

ROOT = os.path.dirname(os.path.dirname(os.path.abspath(__file__)))
PIPE = 'pipeline engine: real generate/erase/overwrite/translate call sequence of hephaestus.gen_program under harness-installed monitors'
CHECKS = {
 'C01': ('pipeline', 'DESIGN 5/C01', 'reference type checker (three-valued) over every typed position of every generated program + wrapper on Generator.generate_expr (requested type vs. type of the node it returned, judged at the node\'s position); javac as the judge for Java',
         'what the reference checker cannot decide (capture conversion, unresolved members) is unjudged and counted; Kotlin/Groovy/Scala have no compiler in the sandbox'),
 'C02': ('pipeline', 'DESIGN 5/C02', 'process-boundary monitor: real javac on every generated and erased Java translation, alone vs. batched with the tool\'s own command line',
         'javac 17 is the judge; truth runs lift the 100-error print limit'),
 'C03': ('pipeline', 'DESIGN 5/C03', 'snapshot/diff monitor around TypeErasure.transform() with a whitelist of permitted differences; reference checker re-run in inference mode on the erased program (omitted annotations re-inferred, omitted type arguments solved) against its findings before the erasure; javac on erased Java translations',
         'well-typedness after erasure is decided by javac for Java and by the inference-mode reference checker (a model of compiler inference; undecided positions are unjudged and counted) for Kotlin/Groovy/Scala'),
 'C04': ('pipeline', 'DESIGN 5/C04', 'snapshot/diff monitor around TypeOverwriting.transform(): exactly-one-type, reference unrelatedness, message, reference checker must find a new definite error (all languages), javac must reject (Java), unchanged when not injected',
         'the reference subtype relation and the (under-approximated) language conversion tables; javac for Java'),
 'C05': ('pipeline', 'DESIGN 5/C05', 'independent scope / arity / mutability / keyword resolver walking every name-use site of every generated program',
         'unknown receivers are unjudged; keyword tables are the harness\'s own'),
 'C06': ('typelab', 'DESIGN 5/C06', 'wrapper monitor on every is_subtype/is_assignable + declarative reference relation; synthetic class tables (small family enumerated, random large) and every query of real runs',
         'reference relation mirrors the IR\'s naive-substitution definition of supertypes of projected types; negatives judged only inside the exactness domain'),
 'C07': ('typelab', 'DESIGN 5/C07', 'wrapper monitor on TypeConstructor.new / substitute_type / to_variance_free / to_type_variable_free: entry/exit value digests of all inputs, reference substitution, end-of-history audit of earlier instantiations',
         'value-structural digests; attribution of audit hits by write traps in a replayed case'),
 'C08': ('typelab', 'DESIGN 5/C08', 'post-condition monitor (P1-P5) on every call of instantiate_type_constructor / instantiate_parameterized_function / direct _compute_type_variable_assignments, synthetic, through Generator._get_matching_class on synthetic tables, and in real runs',
         'bound checks the reference relation cannot decide are unjudged'),
 'C09': ('typelab', 'DESIGN 5/C09', 'wrapper monitor on find_subtypes / find_irrelevant_type judged by the reference relation, synthetic tables x RNG seeds and every call of real runs',
         'the reference relation includes the implicit top type'),
 'C10': ('typelab', 'DESIGN 5/C10', 'wrapper monitor on unify_types: substitute-back law on structural terms, bounds of open and assigned variables; pairs built from a unifier and perturbed',
         'completeness is not demanded'),
 'C11': ('pipeline', 'DESIGN 5/C11', 'translation histories (driver, fresh, repeated, long-lived reused translator, after foreign-language translators, fresh translator at session end on a faithful copy): byte equality of texts, value digest of the program around every translation',
         'digest equality ignores object sharing'),
 'C12': ('pipeline', 'DESIGN 5/C12', 'per-language scanners over the emitted text compared with a declaration inventory computed from the IR; balance of brackets and quotes',
         'scanners are tokenisers, not parsers'),
 'C13': ('pipeline', 'DESIGN 5/C13', 'dump/load round trips through the tool\'s own dump and --replay load path at every save point; shadow pipeline re-applies the driver\'s next mutation to the reloaded copy under the same RNG state',
         'shadow mutations need the deterministic identity-hash shim'),
 'C14': ('compilerlab', 'DESIGN 5/C14', 'ground-truth-carrying synthesiser of javac/kotlinc/groovyc/scalac outputs + real javac batches, judged against analyze_compiler_output',
         'kotlinc/groovyc/scalac formats are synthesised (templates from reported/bugs.json and the compilers\' documented renderers)'),
 'C15': ('driverlab', 'DESIGN 5/C15', 'decision-table monitor on the real check_oracle/update_stats with a scripted compiler + whole CLI sessions against scripted compilers on PATH, judged by a 15-line decision model and conservation laws',
         'debug/rerun/examine modes are outside the workload'),
 'C16': ('ctxlab', 'DESIGN 5/C16', 'operation histories on the real Context compared after every step with a reference scoped-map model; declaration trees registered through Program.add_declaration/update_children compared with the lexical scoped map',
         'global queries are judged exactly only when a name is live in one reachable namespace'),
 'C17': ('pipeline', 'DESIGN 5/C17', 'absence-predicate monitor over a total walk of every recorded type of programs generated under all 16 switch subsets x 4 languages',
         'star projections are counted, not judged'),
 'C18': ('pipeline', 'DESIGN 5/C18', 'exception capture and logical step counting (sys.monitoring PY_START of repository code) per pipeline stage; AST nesting bound; identifier-pool refill invariant between programs and one long single-process session',
         'termination is decided as bounded progress on logical steps; a wall-clock watchdog firing is inconclusive'),
 'C19': ('graphlab', 'DESIGN 5/C19', 'all digraphs on <=4 vertices and random larger ones against an independent reference; wrapper on dfs during real dependency analyses',
         'exhaustive up to 4 vertices'),
}
ENGINES = {
 'pipeline': ('vf/labs/pipeline.py', PIPE),
 'typelab': ('vf/labs/typelab.py', 'synthetic class tables built with the real IR constructors from a spec that also builds the reference table; plus pipeline-derived events'),
 'compilerlab': ('vf/labs/compilerlab.py', 'compiler-output synthesiser with ground truth + real javac'),
 'driverlab': ('vf/labs/driverlab.py', 'in-process driver decision table + whole CLI sessions with scripted compilers on PATH'),
 'ctxlab': ('vf/labs/ctxlab.py', 'random and exhaustive operation histories on the symbol table'),
 'graphlab': ('vf/labs/graphlab.py', 'exhaustive small digraphs + random large ones'),
}


def main():
    claimed = [l.strip() for l in open(os.path.join(ROOT, 'tools', 'claimed.txt')) if l.strip() and not l.startswith('#')]
    na = {}
    nap = os.path.join(ROOT, 'tools', 'not_applicable.json')
    if os.path.exists(nap):
        na = json.load(open(nap))
    checks = []
    for pid in sorted(CHECKS):
        if pid not in claimed:
            continue
        eng, ref, tech, note = CHECKS[pid]
        checks.append({
            'property_id': pid,
            'quick_cmd': './check %s quick' % pid,
            'thorough_cmd': './check %s thorough' % pid,
            'evidence_file': 'evidence/%s.json' % pid,
            'replay_cmd_template': './check %s --replay {path}' % pid,
            'engine': eng,
            'level_claimed': {'category': 'exploration',
                              'text': 'runtime monitoring: the property held on every execution the workloads produced '
                                      '(counts, shapes and samples in the evidence file); nothing is claimed about '
                                      'executions that were not produced',
                              'design_ref': ref},
            'level_note': note,
            'technique': tech,
        })
    m = {
        'version': 1,
        'setup_cmd': 'true',
        'hooks': {
            'guard': 'HEPHAESTUS_VERIF',
            'enable': 'no repository hooks: every monitor is installed from the harness (vf/boot.py, vf/monitors/*) on the unmodified working tree; the guard variable is unused',
            'baseline_off_cmd': 'cd /repo && /venv/bin/python -m pytest -ra -q -p no:cacheprovider --timeout=900 --continue-on-collection-errors',
            'source_commits': [],
            'add_only': True,
        },
        'engines': [{'name': k, 'path': v[0], 'kind_free_text': v[1],
                     'serves_properties': [p for p in sorted(CHECKS) if CHECKS[p][0] == k and p in claimed]}
                    for k, v in ENGINES.items()],
        'checks': checks,
        'not_applicable': [{'property_id': p, 'reason': na.get(p, 'check not built yet in this round (runtime monitoring applies; see DESIGN.md section 5)')}
                           for p in sorted(CHECKS) if p not in claimed],
        'notes': 'Runtime monitoring only. ./check <ID> <quick|thorough> [--replay path]; VERIF_SEED selects the workload; '
                 'VERIF_REPO (default /repo) selects the tree under test. Known findings: known_findings.json (+ known_findings.d/).',
    }
    with open(os.path.join(ROOT, 'MANIFEST.json'), 'w') as f:
        json.dump(m, f, indent=1)
    print('claimed', claimed)


if __name__ == '__main__':
    main()
